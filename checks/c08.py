"""C08 (reduced scope) -- connected signals carry their single writer's value, independent of connect order.

For every design of a connection corpus and every variant (permuted statements, swapped sides): the variant must
elaborate (the corpus is legal by construction), and after sim_eval_combinational() from a symbolic state both sides of
EVERY connect statement carry the same value and every output equals variant 0's, for all inputs (z3).
The REPORTED nets and writers (get_all_value_nets) are compared too: equal for every variant, the partition equal to
the connected components computed from the statement texts alone, the writers equal to a hand-written list.  Those
three clauses have no input to quantify over; they are decided by direct comparison per variant.
"""
import os
import sys
import z3

from vlib import Check, pmap, cover, prove
from vlib.pathcheck import Result
from symx import core
from symx.core import Explorer
from symx.symsim import SymSim

REPLAY = '''
sys.path.insert(0, '/verif')
import os; os.environ['VERIF_VARIANTS'] = %(nvar)r
import warnings; warnings.filterwarnings('ignore')
from corpus import conn_designs as CD
from vlib.ffreplay import _cells
from pymtl3 import DefaultPassGroup
name, vi, state, pair, ref_vi = %(name)r, %(vi)d, %(state)r, %(pair)r, %(ref)d
def run(v):
  top = CD.get(name, v)(); top.elaborate(); top.apply(DefaultPassGroup())
  cells = _cells(top)
  for n, x in state.items():
    if n in cells: cells[n]._uint = x
  top.sim_eval_combinational()
  return top
try:
  top = run(vi)
except Exception as e:
  reproduced(f"connection design {name} variant {vi} {CD.statements(name, vi)}: a legal design does not elaborate/simulate: {type(e).__name__}: {str(e)[:200]}")
val = lambda t, e: (lambda x: int(x.to_bits()) if hasattr(x, 'to_bits') else int(x))(eval(e, {'s': t}))
if pair:
  a, b = pair
  isk = lambda t: t.lstrip('-').isdigit()
  if not isk(a) and not isk(b) and val(top, a) != val(top, b):
    reproduced(f"{name} variant {vi}: connect({a}, {b}) but after evaluation {a} = {val(top, a):#x}, {b} = {val(top, b):#x} (inputs {state})")
  if isk(a) != isk(b):
    k, e = (a, b) if isk(a) else (b, a)
    if val(top, e) != int(k):
      reproduced(f"{name} variant {vi}: connect({e}, {k}) but after evaluation {e} = {val(top, e):#x} (inputs {state})")
ref = run(ref_vi)
from pymtl3.dsl import OutPort
for sig in sorted(ref._dsl.all_signals, key=repr):
  if isinstance(sig, OutPort) and sig.is_top_level_signal() and sig.get_host_component() is ref:
    if val(top, repr(sig)) != val(ref, repr(sig)):
      reproduced(f"{name}: output {sig!r} = {val(top, repr(sig)):#x} in variant {vi} {CD.statements(name, vi)} but {val(ref, repr(sig)):#x} in variant {ref_vi}")
'''


def canon_nets(top):
  """reported value nets as a canonical, identity-free structure: sorted [(writer name, sorted member names)]"""
  from pymtl3.dsl import Const
  nm = lambda x: f"CONST:{int(x._dsl.const)}" if isinstance(x, Const) else repr(x)
  return sorted((nm(w), sorted(nm(x) for x in sigs)) for w, sigs in top.get_all_value_nets())


def oracle_partition(name, stmts):
  """connected components of the connection graph, from the statement list alone (union-find over the texts)"""
  from corpus import conn_designs as CD
  par = {}
  def find(x):
    par.setdefault(x, x)
    while par[x] != x:
      par[x] = par[par[x]]; x = par[x]
    return x
  import re
  def norm(t):      # s.x[2:12][2:6] names the same bits as s.x[4:8]
    while True:
      m = re.search(r"\[(\d+):(\d+)\]\[(\d+):(\d+)\]", t)
      if not m: return t
      a0, b0, c0, d0 = map(int, m.groups())
      t = t[:m.start()] + f"[{a0 + c0}:{a0 + d0}]" + t[m.end():]
  k = 0
  for a, b in [(norm(x), norm(y)) for x, y in list(stmts) + list(CD.EXTRA_EDGES.get(name, []))]:
    if a.lstrip('-').isdigit(): a = f"CONST:{int(a)}#{k}"; k += 1     # every literal is its own Const object
    if b.lstrip('-').isdigit(): b = f"CONST:{int(b)}#{k}"; k += 1
    par[find(a)] = find(b)
  comps = {}
  for x in par: comps.setdefault(find(x), set()).add(x.split('#')[0])
  return sorted(sorted(c) for c in comps.values())


REPLAY_NETS = '''
sys.path.insert(0, '/verif')
import os; os.environ['VERIF_VARIANTS'] = %(nvar)r
import warnings; warnings.filterwarnings('ignore')
from corpus import conn_designs as CD
from checks.c08 import canon_nets, oracle_partition
name, vi = %(name)r, %(vi)d
tops = []
for v in (0, vi):
  t = CD.get(name, v)(); t.elaborate(); tops.append(t)
n0, n1 = canon_nets(tops[0]), canon_nets(tops[1])
if n0 != n1:
  d = [x for x in n1 if x not in n0]
  reproduced(f"{name}: variant {vi} {CD.statements(name, vi)} reports nets/writers {d} that variant 0 does not report ({[x for x in n0 if x not in n1]})")
skip = lambda ms: all(m.endswith('.clk') or m.endswith('.reset') for m in ms)
got = sorted(ms for w, ms in n1 if not skip(ms))
want = oracle_partition(name, CD.statements(name, vi))
if got != want:
  reproduced(f"{name} variant {vi}: reported nets {got} are not the connected components of the connection graph {want}")
ws = sorted(w for w, ms in n1 if not skip(ms))
if ws != sorted(CD.WRITERS[name]) or any(w not in ms for w, ms in n1):
  reproduced(f"{name} variant {vi}: reported writers {ws}, expected {CD.WRITERS[name]}")
'''


def item(it):
  cover.start()
  import warnings; warnings.filterwarnings('ignore')
  from corpus import conn_designs as CD
  from pymtl3.dsl import OutPort, InPort
  name = it['name']
  res = Result(f"conn/{name}")
  nv = CD.nvariants(name)
  ref_out = None
  ref_nets = None
  for vi in range(nv):
    stmts = CD.statements(name, vi)
    res['obligations'] += 1
    try:
      sim = SymSim(CD.get(name, vi)())
    except core.Unsupported: raise
    except Exception as e:
      res['violations'].append(dict(key=f"connect:{name}:elaboration", what=f"{res['name']} variant {vi} {stmts}: legal design rejected: {type(e).__name__}: {str(e)[:150]}",
                                    replay=REPLAY % dict(nvar=os.environ.get('VERIF_VARIANTS', '24'), name=name, vi=vi, state={}, pair=None, ref=0)))
      continue
    top = sim.top
    # -- the REPORTED nets and writers: equal for every variant, and the partition equals the connected components
    res['obligations'] += 2
    nets = canon_nets(top)
    if ref_nets is None: ref_nets = nets
    skip = lambda ms: all(m.endswith('.clk') or m.endswith('.reset') for m in ms)
    if nets != ref_nets:
      res['violations'].append(dict(key=f"connect:{name}:nets depend on the order", what=f"{res['name']} variant {vi} {stmts}: reported nets/writers differ from variant 0: {[x for x in nets if x not in ref_nets]}",
                                    replay=REPLAY_NETS % dict(nvar=os.environ.get('VERIF_VARIANTS', '24'), name=name, vi=vi)))
    elif sorted(ms for w, ms in nets if not skip(ms)) != oracle_partition(name, stmts):
      res['violations'].append(dict(key=f"connect:{name}:nets are not the connected components", what=f"{res['name']} variant {vi}: reported nets {[ms for w, ms in nets if not skip(ms)]} != components {oracle_partition(name, stmts)}",
                                    replay=REPLAY_NETS % dict(nvar=os.environ.get('VERIF_VARIANTS', '24'), name=name, vi=vi)))
    elif sorted(w for w, ms in nets if not skip(ms)) != sorted(CD.WRITERS[name]) or any(w not in ms for w, ms in nets):
      res['violations'].append(dict(key=f"connect:{name}:wrong writer", what=f"{res['name']} variant {vi}: reported writers {[w for w, ms in nets if not skip(ms)]} != {CD.WRITERS[name]}",
                                    replay=REPLAY_NETS % dict(nvar=os.environ.get('VERIF_VARIANTS', '24'), name=name, vi=vi)))
    else:
      res['discharged'] += 2
    outs = sorted(repr(x) for x in top._dsl.all_signals if isinstance(x, OutPort) and x.is_top_level_signal() and x.get_host_component() is top)
    probe = {}

    def run():
      v = sim.symbolic_state(); probe.update(v)
      top.sim_eval_combinational()
      vals = {}
      for a, b in stmts:
        for e in (a, b):
          if not e.lstrip('-').isdigit(): vals[e] = z3.simplify(sim.value_bv(eval(e, {'s': top})))
      return vals, {o: sim.sig_bv(o) for o in outs}
    for pc, out, exc in Explorer(max_paths=20).paths(run):
      res['states'] += 1; res['transitions'] += len(pc)
      state_of = lambda m: {n: m.eval(x, model_completion=True).as_long() for n, x in probe.items()}
      if exc is not None:
        v, m = prove(pc, z3.BoolVal(False))
        res['violations'].append(dict(key=f"connect:{name}:raises", what=f"{res['name']} variant {vi}: evaluation raised {type(exc).__name__}: {exc}",
                                      replay=REPLAY % dict(nvar=os.environ.get('VERIF_VARIANTS', '24'), name=name, vi=vi, state=state_of(m) if v == 'sat' else {}, pair=None, ref=0)))
        continue
      vals, ov = out
      bad = None
      for a, b in stmts:
        if a.lstrip('-').isdigit() or b.lstrip('-').isdigit():
          k, e = (a, b) if a.lstrip('-').isdigit() else (b, a)
          goal = vals[e] == z3.BitVecVal(int(k), vals[e].size())
        else:
          goal = vals[a] == vals[b]
        res['obligations'] += 1
        v, m = prove(pc, goal)
        if v == 'unsat': res['discharged'] += 1
        elif v == 'sat': bad = ((a, b), state_of(m)); break
        else: res['inconclusive'].append("solver unknown")
      if bad:
        res['violations'].append(dict(key=f"connect:{name}:member differs", what=f"{res['name']} variant {vi}: connect{bad[0]} but the two sides differ after evaluation",
                                      replay=REPLAY % dict(nvar=os.environ.get('VERIF_VARIANTS', '24'), name=name, vi=vi, state=bad[1], pair=list(bad[0]), ref=0)))
        continue
      if ref_out is None:
        ref_out = ov; res['discharged'] += 1
      else:
        v, m = prove(pc, z3.And(*[ov[o] == ref_out[o] for o in outs if o in ref_out]) if outs else z3.BoolVal(True))
        if v == 'unsat': res['discharged'] += 1
        elif v == 'sat':
          res['violations'].append(dict(key=f"connect:{name}:order dependent", what=f"{res['name']}: variant {vi} {stmts} gives different outputs than variant 0",
                                        replay=REPLAY % dict(nvar=os.environ.get('VERIF_VARIANTS', '24'), name=name, vi=vi, state=state_of(m), pair=None, ref=0)))
        else: res['inconclusive'].append("solver unknown")
  res['distinct'].append(res['name'])
  res['twins_expected'] = 0
  res['note'] = f"{nv} variants"
  res['samples'].append({'design': name, 'variants': nv, 'statements': CD.statements(name, 0), 'a_variant': CD.statements(name, nv - 1)})
  return res.r


def main():
  tier = sys.argv[1] if len(sys.argv) > 1 else 'quick'
  chk = Check('C08', tier)
  if tier == 'thorough': os.environ['VERIF_VARIANTS'] = '240'
  from corpus import conn_designs as CD
  items = [dict(name=n) for n in CD.names()]
  for it, r in pmap(item, items, item_timeout=900):
    chk.absorb(it, r)
  chk.bounds = dict(designs=CD.names(), variants=f"permutations x side flips: up to {os.environ.get('VERIF_VARIANTS', '24')} per design (all when fewer; evenly spaced subset otherwise)", cycles='one combinational evaluation from an arbitrary state')
  chk.outside = ['connection multisets outside the corpus', 'method-port nets']
  chk.assumptions = ['corpus designs are legal by construction: an elaboration error on any variant is a violation']
  chk.finish(rule="per design and variant: the variant elaborates; per connect statement one obligation 'both sides equal after evaluation for all inputs'; per variant one obligation 'outputs equal variant 0'; per variant two structural obligations: reported nets/writers equal variant 0's, partition = connected components of the statement graph and writers = hand-written list (direct comparison, no solver)")


if __name__ == '__main__':
  main()
