"""C15 (reduced scope) -- a replaced design simulates exactly like the design built from scratch.

For each history of a replacement corpus the design after replace_component[_with_obj] and the design constructed
directly with the replacements in place run through the real passes from the same symbolic state with the same symbolic
inputs for k cycles; all outputs and all same-named cells must be equal (z3).  The metadata clauses have no input to
quantify over and are decided per history by direct comparison: the canonical (name-based) form of every queryable
structure equals that of the design built from scratch, and every recorded object is the object its name evaluates to.
"""
import sys
import z3

from vlib import Check, pmap, cover, prove
from vlib.pathcheck import Result
from symx import core
from symx.core import Explorer
from symx.symsim import SymSim

REPLAY = '''
sys.path.insert(0, '/verif')
import warnings; warnings.filterwarnings('ignore')
from corpus import replace_designs as RD
from vlib.ffreplay import _cells
from pymtl3 import DefaultPassGroup
name, state, cycles = %(name)r, %(state)r, %(cycles)r
tr = []
for mk, elab in ((RD.replaced, False), (RD.scratch, True)):
  try:
    top = mk(name)
    if elab: top.elaborate()
    top.apply(DefaultPassGroup())
    cells = _cells(top)
    for n, v in state.items():
      if n in cells:
        cells[n]._uint = v
        try:
          cells[n]._next; cells[n]._next = v
        except AttributeError: pass
    t = []
    for v in cycles:
      top.in_ @= v; top.reset @= 0
      top.sim_eval_combinational(); t.append((int(top.out), int(top.tap)))
      top.sim_tick(); t.append((int(top.out), int(top.tap)))
    tr.append(t)
  except Exception as e:
    if not elab: reproduced(f"history {name}: the replaced design cannot be simulated: {type(e).__name__}: {str(e)[:200]}")
    raise
if tr[0] != tr[1]: reproduced(f"history {name} {RD.history_of(name)}: (out, tap) trace {tr[0]} after replacement, {tr[1]} when built from scratch (inputs {cycles})")
'''


REPLAY_META = '''
sys.path.insert(0, '/verif')
import warnings; warnings.filterwarnings('ignore')
from corpus import replace_designs as RD
from vlib.meta import canon_meta, diff_meta, stale_objects
name = %(name)r
a = RD.replaced(name); b = RD.scratch(name); b.elaborate()
d = diff_meta(canon_meta(a), canon_meta(b))
if d: reproduced(f"history {name} {RD.history_of(name)}: queryable metadata differs from the design built from scratch: " + "; ".join(d))
st = stale_objects(a)
if st: reproduced(f"history {name} {RD.history_of(name)}: objects of a removed component are still recorded: " + "; ".join(st))
'''


def item(it):
  cover.start()
  import warnings; warnings.filterwarnings('ignore')
  from corpus import replace_designs as RD
  from pymtl3 import DefaultPassGroup
  name, K = it['name'], it['K']
  res = Result(f"replace/{name}")
  # -- structural clauses (no input to quantify over): metadata equal up to identity; nothing of a removed component recorded
  from vlib.meta import canon_meta, diff_meta, stale_objects
  res['obligations'] += 2
  try:
    a = RD.replaced(name); b = RD.scratch(name); b.elaborate()
    d = diff_meta(canon_meta(a), canon_meta(b)); st = stale_objects(a)
  except Exception as e:
    d = [f"metadata query raised {type(e).__name__}: {str(e)[:120]}"]; st = []
  if d:
    res['violations'].append(dict(key=f"replace:{name}:metadata differs:{d[0].split(':')[0]}", what=f"{res['name']}: metadata differs from the design built from scratch: {'; '.join(d)[:400]}",
                                  replay=REPLAY_META % dict(name=name)))
  else: res['discharged'] += 1
  if st:
    res['violations'].append(dict(key=f"replace:{name}:stale object:{st[0].split(':')[0]}", what=f"{res['name']}: objects of a removed component remain recorded: {'; '.join(st)[:400]}",
                                  replay=REPLAY_META % dict(name=name)))
  else: res['discharged'] += 1
  res['obligations'] += 1
  try:
    A = SymSim(RD.replaced(name), group=lambda top: top.apply(DefaultPassGroup()))
  except core.Unsupported: raise
  except Exception as e:
    res['violations'].append(dict(key=f"replace:{name}:cannot simulate", what=f"{res['name']}: replaced design cannot be prepared for simulation: {type(e).__name__}: {str(e)[:150]}",
                                  replay=REPLAY % dict(name=name, state={}, cycles=[1, 2])))
    return res.r
  res['discharged'] += 1
  Bsim = SymSim(RD.scratch(name))
  probe = {}
  ins = [z3.BitVec(f'in@{t}', 32) for t in range(K)]

  def runner(sim):
    def run():
      tr = []
      if name in RD.CL_HISTORIES:       # method ports: no sim_eval_combinational; Python-object state starts fresh
        sim.zero_state()
        for t in range(K):
          sim.set('s.in_', ins[t]); sim.set('s.reset', 0)
          sim.top.sim_tick(); tr.append(sim.state_terms())
        return tr
      v = sim.symbolic_state(); probe.update(v)
      for t in range(K):
        sim.set('s.in_', ins[t]); sim.set('s.reset', 0)
        sim.top.sim_eval_combinational(); tr.append(sim.state_terms())
        sim.top.sim_tick(); tr.append(sim.state_terms())
      return tr
    return run
  ra = list(Explorer(max_paths=20).paths(runner(A))); rb = list(Explorer(max_paths=20).paths(runner(Bsim)))
  names_a = {c.name for c in A.cells}; names_b = {c.name for c in Bsim.cells}
  res['obligations'] += 1
  if names_a != names_b:
    res['violations'].append(dict(key=f"replace:{name}:cells differ", what=f"{res['name']}: simulated signal sets differ: only after replacement {sorted(names_a - names_b)[:4]}, only from scratch {sorted(names_b - names_a)[:4]}",
                                  replay=REPLAY % dict(name=name, state={}, cycles=[1, 2, 3]), speculative=True))
  else: res['discharged'] += 1
  for pa, ta, ea in ra:
    for pb, tb, eb in rb:
      res['states'] += 1; res['transitions'] += len(pa) + len(pb); res['obligations'] += 1
      if ea is not None or eb is not None:
        goal = z3.BoolVal(ea is not None and eb is not None and type(ea) is type(eb))
      else:
        common = sorted(names_a & names_b)
        goal = z3.And(*[x[n] == y[n] for x, y in zip(ta, tb) for n in common if n != 's.clk'])
      v, m = prove(pa + pb, goal)
      if v == 'unsat': res['discharged'] += 1; res['distinct'].append(f"{res['name']}#{res['states']}")
      elif v == 'sat':
        g = lambda x: m.eval(x, model_completion=True).as_long()
        res['violations'].append(dict(key=f"replace:{name}:behaviour differs", what=f"{res['name']}: the replaced design and the design built from scratch differ in simulation",
                                      replay=REPLAY % dict(name=name, state={n: g(x) for n, x in probe.items()}, cycles=[g(x) for x in ins])))
      else: res['inconclusive'].append("solver unknown")
  res['twins_expected'] = 0
  res['samples'].append({'history': RD.history_of(name), 'cells': len(names_a), 'cycles': K})
  return res.r


def main():
  tier = sys.argv[1] if len(sys.argv) > 1 else 'quick'
  chk = Check('C15', tier)
  from corpus import replace_designs as RD
  K = 3 if tier == 'quick' else 5
  items = [dict(name=n, K=K) for n in RD.all_names()]
  for it, r in pmap(item, items, item_timeout=900):
    chk.absorb(it, r)
  chk.bounds = dict(histories=RD.all_names(), cycles=K, state='arbitrary initial state of every cell, symbolic input every cycle')
  chk.outside = ['histories outside the corpus', 'method-port (CL) children other than the internal method net history']
  chk.assumptions = ['scheduler = DynamicSchedulePass']
  chk.finish(rule="per history: the replaced design can be prepared for simulation; same set of simulated signal cells; one obligation per joint path: every same-named cell equal after every eval and tick for k cycles; two structural obligations per history (direct comparison, no solver): canonical metadata (components, signals, named objects, value and method nets with writers, adjacency, update/ff/once blocks, read/write/call sets, U-U, RD-U, WR-U and method constraints) equal to the from-scratch design; no recorded object that its own name does not evaluate to")


if __name__ == '__main__':
  main()
