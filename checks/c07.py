"""C07 -- flip-flop updates are atomic at the clock edge.

Oracle, independent of the flip machinery: run every update_ff block ALONE from the settled pre-edge
state with a sentinel planted in every _next; what a block assigned (last assignment on each path) defines
F(state); registers nobody assigned keep their value.  The real sim_tick() of each real pass group must
produce exactly F on every register, for all states and inputs; ff blocks must commute pairwise.
"""
import sys
import z3

from vlib import Check, pmap, cover, prove
from vlib.pathcheck import Result, prove_from_defaults
from symx import core
from symx.core import Explorer, SymInt, lift, ubv
from symx.symsim import SymSim, GROUP_NAMES, _ite_merge

REPLAY_ELAB = '''
sys.path.insert(0, '/verif')
import warnings; warnings.filterwarnings('ignore')
from corpus import ff_designs as FD
from vlib.ffreplay import apply_group
try:
  top = FD.DESIGNS[%(name)r](); apply_group(top, %(group)r)
except Exception as e:
  reproduced(f"ff design {%(name)r} under pass group {%(group)r}: a legal design is rejected: {type(e).__name__}: {str(e)[:200]}")
'''

REPLAY_EDGE = '''
sys.path.insert(0, '/verif')
from vlib.ffreplay import edge_check
from checks_designs import make
msg = edge_check(make(%(design)r), %(group)r, %(state)r, %(order)r)
if msg: reproduced(%(design)r + ": " + msg)
'''
REPLAY_ORDER = '''
sys.path.insert(0, '/verif')
from vlib.ffreplay import order_check
from checks_designs import make
msg = order_check(make(%(design)r), %(state)r, %(nexts)r, %(a)r, %(b)r)
if msg: reproduced(%(design)r + ": " + msg)
'''


def make(name):
  from checks_designs import make as mk
  return mk(name)()


def _recorder(log):
  def rec(self, v):
    n = self._nbits
    if hasattr(v, 'nbits'):
      if v.nbits != n: raise ValueError("width mismatch in <<=")
      val = v.to_bits()._uint
    else:
      val = core.sym_int(v)
      if not (-(1 << (n - 1)) <= val <= (1 << n) - 1): raise ValueError("value does not fit in <<=")
      val = val & ((1 << n) - 1)
    log.append((self, val))
    return self
  return rec


def _struct_classes(sim):
  out = set()
  def rec(v):
    if isinstance(v, list):
      for x in v: rec(x)
    elif sim._is_bs(v):
      out.add(type(v))
      for f in v.__bitstruct_fields__: rec(getattr(v, f))
  for v in sim.sig_value.values(): rec(v)
  return out


def _struct_ilshift(self, other):
  """reference semantics of `struct <<= value`, independent of the generated method: every leaf, found by walking the
  instance itself, is assigned from the corresponding leaf of the right-hand side"""
  if other.__class__ is not self.__class__:
    other = self.__class__.from_bits(other.to_bits())
  def rec(a, b):
    if isinstance(a, list):
      for x, y in zip(a, b): rec(x, y)
    elif hasattr(type(a), '__bitstruct_fields__'):
      for f in a.__bitstruct_fields__: rec(getattr(a, f), getattr(b, f))
    else:
      a <<= b
  rec(self, other)
  return self


def blkkey(top, f): return repr(top.get_update_block_host_component(f)) + '.' + f.__name__


def item_edge(it):
  cover.start()
  name, group = it['design'], it['group']
  res = Result(f"edge/{name}/{group}")
  try:
    sim = SymSim(make(name), group=group)
  except core.Unsupported: raise
  except Exception as e:       # the corpus designs are legal: one that cannot be elaborated / scheduled is a violation
    res['obligations'] += 1
    res['violations'].append(dict(key=f"ff-edge {name}: cannot be simulated", what=f"{res['name']}: a legal sequential design is rejected: {type(e).__name__}: {str(e)[:160]}",
                                  replay=REPLAY_ELAB % dict(name=name, group=group)))
    return res.r
  top = sim.top
  ff_order = [blkkey(top, f) for f in top.get_all_update_ff()]     # the (address-dependent) iteration order this run saw
  ffs = sorted(top.get_all_update_ff(), key=lambda f: blkkey(top, f))
  cells = sim.cells
  structs = _struct_classes(sim)
  flagged = {c.name for c in cells if c.dbuf}
  probe = {}

  def run():
    outer = Explorer.cur
    v = sim.symbolic_state(); probe.update(v)
    top.sim_eval_combinational()
    S0 = sim.snapshot()
    # reference F: each ff block alone on pre-edge values, sentinel in every _next
    F = {c.name: None for c in cells}       # name -> list of (cond, value)
    sane = True
    for g in ffs:
      def body():
        sim.restore(S0)
        log = []
        orig = sim.Bits.__ilshift__
        sim.Bits.__ilshift__ = _recorder(log)       # `x <<= v` only records (x, value): oracle independent of _next/_flip
        saved = {c: c.__ilshift__ for c in structs}
        for c in structs: c.__ilshift__ = _struct_ilshift     # ... and of the generated per-field struct code
        try: g()
        finally:
          sim.Bits.__ilshift__ = orig
          for c, f_ in saved.items(): c.__ilshift__ = f_
        last = {}
        for o, val in log: last[id(o)] = val
        return [(last.get(id(c.obj)), c.obj._uint is S0[i][0]) for i, c in enumerate(cells)]
      sub = Explorer(base_pc=outer.base + outer.pc, max_paths=4096)
      for pc, r, exc in sub.paths(body):
        if exc is not None: raise core.Unsupported(f"update_ff block {g.__name__} raises when run alone: {type(exc).__name__}: {exc}")
        cond = z3.And(*pc) if pc else z3.BoolVal(True)
        for i, c in enumerate(cells):
          nx, same = r[i]
          if not same: sane = False
          if nx is not None:
            F[c.name] = (F[c.name] or []) + [(cond, nx, g.__name__)]
    sim.restore(S0)
    top.sim_tick()
    post = {c.name: c.obj._uint for c in cells}
    pre = {c.name: S0[i][0] for i, c in enumerate(cells)}
    return F, pre, post, sane

  ex = Explorer(max_paths=64)
  for pc, out, exc in ex.paths(run):
    res['states'] += 1; res['transitions'] += len(pc)
    if exc is not None:
      res['inconclusive'].append(f"simulation raised on a path: {type(exc).__name__}: {exc}"); continue
    F, pre, post, sane = out
    goals = []
    nreg = 0
    for c in cells:
      if F[c.name] is None and c.name not in flagged: continue
      nreg += 1
      exp = ubv(pre[c.name], c.nbits)
      for cond, val, gname in (F[c.name] or []):
        exp = z3.If(cond, ubv(val, c.nbits), exp)
      goals.append(ubv(post[c.name], c.nbits) == exp)
      goals.append(core.in_range(post[c.name], 0, (1 << c.nbits) - 1))      # the committed payload is a valid n-bit value
    if not sane: goals.append(z3.BoolVal(False))
    res['obligations'] += 1
    stale = [x for k, x in probe.items() if k not in flagged and not (F[k] or []) and not k.startswith('s.') is False and False]
    v, m = prove(pc, z3.And(*goals) if goals else z3.BoolVal(True))
    if v == 'unsat':
      res['discharged'] += 1; res['distinct'].append(f"{res['name']}#{res['states']}")
    elif v == 'sat':
      state = {k: m.eval(x, model_completion=True).as_long() for k, x in probe.items()}
      res['violations'].append(dict(key=f"ff-edge {name}/{group}", what=f"{res['name']}: a register after sim_tick() differs from F(pre-edge state)",
                                    replay=REPLAY_EDGE % dict(design=name, group=group, state=state, order=ff_order)))
    else:
      res['inconclusive'].append(f"solver unknown: {m}")
    if not res['twins_expected'] and goals:
      res['twins_expected'] = 1
      c0 = [c for c in cells if F[c.name]]
      if not c0 or prove(pc, ubv(post[c0[0].name], c0[0].nbits) == ubv(pre[c0[0].name], c0[0].nbits))[0] == 'sat': res['twins_sat'] = 1
    res['note'] = f"{len(ffs)} update_ff blocks, {nreg} register cells"
  res['samples'].append(f"{res['name']}: {len(ffs)} ff blocks run alone with sentinels define F; real tick of group '{group}' compared on all register cells from an arbitrary state")
  return res.r


def item_commute(it):
  """every two update_ff blocks commute on all states, pending _next values included"""
  cover.start()
  name = it['design']
  res = Result(f"commute/{name}")
  sim = SymSim(make(name), group='default')
  top = sim.top
  ffs = sorted(top.get_all_update_ff(), key=lambda f: blkkey(top, f))[:8]
  cells = sim.cells
  for ia in range(len(ffs)):
    for ib in range(ia + 1, len(ffs)):
      a, b = ffs[ia], ffs[ib]
      V = {}; NX = {}

      def run(order):
        def f():
          v = sim.symbolic_state(); V.update(v)
          for c in cells:
            nx = z3.BitVec('__next_' + c.name, c.nbits); NX[c.name] = nx
            c.obj._next = core.from_bv(nx)
          for g in order: g()
          return [(c.obj._uint, c.obj._next) for c in cells]
        return f
      # explore a;b then b;a on the joint path space: run both inside one explored function
      def both():
        r1 = run((a, b))(); r2 = run((b, a))()
        return r1, r2
      ex = Explorer(max_paths=4096)
      for pc, out, exc in ex.paths(both):
        res['states'] += 1; res['transitions'] += len(pc); res['obligations'] += 1
        if exc is not None:
          res['inconclusive'].append(f"{a.__name__}/{b.__name__}: raised {type(exc).__name__}: {exc}"); continue
        r1, r2 = out
        goal = z3.And(*[z3.And(ubv(x[0], c.nbits) == ubv(y[0], c.nbits), ubv(x[1], c.nbits) == ubv(y[1], c.nbits)) for c, x, y in zip(cells, r1, r2)])
        v, m = prove(pc, goal)
        if v == 'unsat':
          res['discharged'] += 1; res['distinct'].append(f"{res['name']}:{ia},{ib}#{res['states']}")
        elif v == 'sat':
          g_ = lambda x: m.eval(x, model_completion=True).as_long()
          res['violations'].append(dict(key=f"ff-order {name}", what=f"{res['name']}: blocks {a.__name__} and {b.__name__} give different results in the two orders",
                                        replay=REPLAY_ORDER % dict(design=name, state={k: g_(x) for k, x in V.items()}, nexts={k: g_(x) for k, x in NX.items()},
                                                                  a=blkkey(top, a), b=blkkey(top, b))))
        else:
          res['inconclusive'].append(f"solver unknown: {m}")
  res['twins_expected'] = 0
  res['samples'].append(f"{res['name']}: {len(ffs)} blocks, {len(ffs) * (len(ffs) - 1) // 2} unordered pairs, _uint and pending _next of every cell symbolic")
  return res.r


def dispatch(it):
  return {'edge': item_edge, 'commute': item_commute}[it['kind']](it)


def main():
  tier = sys.argv[1] if len(sys.argv) > 1 else 'quick'
  chk = Check('C07', tier)
  from checks_designs import FF_NAMES
  if tier == 'thorough': FF_NAMES = list(FF_NAMES) + ['ShiftChain7', 'ListRot7', 'ManyBranchy10', 'ManyBranchy11', 'ManyBranchy21']
  items = []
  for d in FF_NAMES:
    for g in GROUP_NAMES:
      items.append(dict(kind='edge', design=d, group=g))
    items.append(dict(kind='commute', design=d))
  for it, r in pmap(dispatch, items, item_timeout=900):
    chk.absorb(it, r)
  chk.bounds = dict(designs=FF_NAMES, groups=list(GROUP_NAMES), cycles=1, note='one edge from an arbitrary state (all cells symbolic, stale wires included): covers every history')
  chk.outside = ['designs outside the corpus', 'CL state updated without update_ff', 'more than 8 ff blocks per design in the pairwise commutation check']
  chk.assumptions = ['pre-edge invariant _next == _uint for double-buffered cells (what the simulator maintains at every cycle boundary) in the edge check; the commutation check drops it']
  chk.finish(rule="per (design, pass group): obligation 'every register after the real sim_tick == F(pre)' with F from isolated blocks + sentinels; per design: all unordered pairs of ff blocks commute")


if __name__ == '__main__':
  main()
