"""C06 -- bitstruct packing is a lossless, order-preserving bijection; ==, clone, @=, <<= agree with it.

bitstruct()/mk_bitstruct() run concretely (they generate code); the *generated* __init__, to_bits,
from_bits, __eq__, __imatmul__, __ilshift__, _flip, clone, __deepcopy__ then run on symbolic leaves.
"""
import copy
import json
import sys
import warnings
import z3

from vlib import Check, pmap, cover, prove
from vlib.pathcheck import Result
from symx import core, pymtl as sp
from symx.core import fresh, ubv, Explorer
from specs import struct_spec as SS
from corpus import structs as CS

warnings.filterwarnings('ignore')

REPLAY = '''
sys.path.insert(0, '/verif')
import warnings; warnings.filterwarnings('ignore')
from specs.struct_spec import concrete_check, build
for d in %(pre)s: build(d, 'R')       # types defined earlier in the same process (same-name classes)
desc = %(desc)s
msg = concrete_check(desc, %(what)r, %(V)r, %(W)r, %(B)d)
if msg: reproduced(%(what)r + ": " + msg)
'''


def one_shape(res, desc, uniq, pre=()):
  Bits = sp.setup()
  T = SS.build(desc, uniq)
  N = SS.nbits(desc)
  offs = SS.offsets(desc)
  name = res['name']
  bv = z3.BitVec('b', N)
  Vv = {p: z3.BitVec('v' + p, w) for p, off, w in offs}
  Wv = {p: z3.BitVec('w' + p, w) for p, off, w in offs}

  def sym_inst(vars_):
    x = T()
    for p, off, w in offs: SS.get(x, p)._uint = core.from_bv(vars_[p])
    return x

  def packed(vars_):
    return z3.Concat(*[vars_[p] for p, off, w in offs]) if len(offs) > 1 else vars_[offs[0][0]]

  def leaf_eq(x, vars_):
    return z3.And(*[ubv(SS.get(x, p)._uint, w) == vars_[p] for p, off, w in offs])

  def no_share(x, y):
    return all(SS.get(x, p) is not SS.get(y, p) for p, off, w in offs)

  def model_vals(m):
    g = lambda v: m.eval(v, model_completion=True).as_long()
    return {p: g(Vv[p]) for p in Vv}, {p: g(Wv[p]) for p in Wv}, g(bv)

  def run(what, fn, goal_of):
    """explore fn(); on every path prove goal_of(result) (a z3 Bool); exceptions are violations"""
    ex = Explorer(max_paths=4000)
    try: paths = list(ex.paths(fn))
    except (core.Unsupported, core.BudgetExceeded) as e:
      res['inconclusive'].append(f"{what}: {type(e).__name__}: {e}"); return
    for pc, out, exc in paths:
      res['states'] += 1; res['transitions'] += len(pc); res['obligations'] += 1
      goal = z3.BoolVal(False) if exc is not None else goal_of(out)
      if goal is False: goal = z3.BoolVal(False)
      if goal is True: goal = z3.BoolVal(True)
      v, m = prove(pc, goal)
      if v == 'unsat':
        res['discharged'] += 1; res['distinct'].append(f"{name}:{what}#{res['states']}")
      elif v == 'sat':
        V, W, Bv = model_vals(m)
        res['violations'].append(dict(key=f"bitstruct {what}", what=f"{name}: {what}" + (f" raised {type(exc).__name__}: {exc}" if exc else " differs from the specified packing"),
                                      replay=REPLAY % dict(pre=json.dumps(list(pre)), desc=json.dumps(desc), what=what, V=V, W=W, B=Bv)))
      else:
        res['inconclusive'].append(f"{what}: solver unknown {m}")

  # 1. layout: to_bits == concatenation by spec_layout; nbits == sum of leaf widths
  def f_layout():
    v = sym_inst(Vv); return v.to_bits()
  run('layout', f_layout, lambda b: z3.And(T.nbits == N, b.nbits == N, ubv(b._uint, N) == packed(Vv)) if b.nbits == N else False)
  # 2. from_bits: every leaf is the specified Extract; to_bits(from_bits(b)) == b
  def f_from():
    v = T.from_bits(sp.bv_bits(N, bv)); return v, v.to_bits()
  run('from_bits', f_from, lambda r: z3.And(*[z3.And(SS.get(r[0], p).nbits == w, ubv(SS.get(r[0], p)._uint, w) == z3.Extract(off + w - 1, off, bv))
                                               for p, off, w in offs], ubv(r[1]._uint, N) == bv))
  # 3. from_bits(to_bits(v)) == v
  run('roundtrip', lambda: T.from_bits(sym_inst(Vv).to_bits()), lambda r: leaf_eq(r, Vv))
  # 4. == / != agree with the packed value, on every path of the generated __eq__
  pe = packed(Vv) == packed(Wv)
  run('eq', lambda: sym_inst(Vv) == sym_inst(Wv), lambda r: pe if r is True else (z3.Not(pe) if r is False else False))
  run('ne', lambda: sym_inst(Vv) != sym_inst(Wv), lambda r: z3.Not(pe) if r is True else (pe if r is False else False))
  # 5. clone / deepcopy: equal leaves, nothing shared, mutating the copy leaves the original alone
  for what, cp in (('clone', lambda v: v.clone()), ('deepcopy', copy.deepcopy)):
    def f_clone():
      v = sym_inst(Vv); c = cp(v)
      ok = no_share(v, c) and type(c) is T
      eq1 = leaf_eq(c, Vv)
      for p, off, w in offs: x = SS.get(c, p); x @= sp.bv_bits(w, ~Vv[p])
      return ok, eq1, leaf_eq(v, Vv)
    run(what, f_clone, lambda r: z3.And(r[1], r[2]) if r[0] else False)
  # 6. a @= b: visible immediately, no aliasing
  def f_imm():
    a, b = sym_inst(Vv), sym_inst(Wv)
    a0 = a; a @= b
    ok = (a is a0) and no_share(a, b)
    e1 = leaf_eq(a, Wv)
    for p, off, w in offs: x = SS.get(b, p); x @= sp.bv_bits(w, ~Wv[p])
    return ok, e1, leaf_eq(a, Wv)
  run('imatmul', f_imm, lambda r: z3.And(r[1], r[2]) if r[0] else False)
  def f_imm_bits():
    a = sym_inst(Vv); a @= sp.bv_bits(N, packed(Wv)); return a
  run('imatmul_bits', f_imm_bits, lambda a: leaf_eq(a, Wv))
  from pymtl3.datatypes import mk_bitstruct, mk_bits
  O = mk_bitstruct('Other' + uniq, {'whole': mk_bits(N)})
  def f_imm_other():
    a = sym_inst(Vv); o = O(); o.whole._uint = core.from_bv(packed(Wv)); a @= o; return a
  run('imatmul_other', f_imm_other, lambda a: leaf_eq(a, Wv))
  # 7. a <<= b: invisible until the flip, then b's value at assignment time
  def f_ff():
    a, b = sym_inst(Vv), sym_inst(Wv)
    a0 = a; a <<= b
    before = leaf_eq(a, Vv)
    for p, off, w in offs: x = SS.get(b, p); x @= sp.bv_bits(w, ~Wv[p])
    a._flip()
    return a is a0, before, leaf_eq(a, Wv)
  run('ilshift', f_ff, lambda r: z3.And(r[1], r[2]) if r[0] else False)
  def f_ff_bits():
    a = sym_inst(Vv); a <<= sp.bv_bits(N, packed(Wv))
    before = leaf_eq(a, Vv); a._flip()
    return before, leaf_eq(a, Wv)
  run('ilshift_bits', f_ff_bits, lambda r: z3.And(*r))
  # multi-step and hashing clauses on a few concrete value patterns (hash() is a C-level function of the packed value: a symbolic
  # payload would have to be enumerated; aliasing between results of separate calls needs no symbolic value at all)
  pats = [lambda w, i: 0, lambda w, i: (1 << w) - 1, lambda w, i: (0x5A5A5A5A5A5A5A5A * (i + 1) + i) % (1 << w), lambda w, i: (i + 1) % (1 << w)]
  for k, pat in enumerate(pats):
    V = {p_: pat(w, i) for i, (p_, off, w) in enumerate(offs)}
    W = {p_: pats[(k + 1) % len(pats)](w, i) for i, (p_, off, w) in enumerate(offs)}
    Bc = SS.pack(desc, W)
    for what in ('sequence', 'hash'):
      res['obligations'] += 1; res['states'] += 1
      try: msg = SS.concrete_check(desc, what, V, W, Bc, uniq)
      except Exception as e: msg = f"raised {type(e).__name__}: {e}"
      if msg is None: res['discharged'] += 1
      else:
        res['violations'].append(dict(key=f"bitstruct {what}", what=f"{name}: {what}: {msg}",
                                      replay=REPLAY % dict(pre=json.dumps(list(pre)), desc=json.dumps(desc), what=what, V=V, W=W, B=Bc)))
  # reachability twin: a deliberately false layout claim must be refutable
  res['twins_expected'] += 1
  for pc, b, exc in Explorer().paths(lambda: sym_inst(Vv).to_bits()):
    if exc is None and prove(pc, ubv(b._uint, N) == packed(Vv) + 1)[0] == 'sat': res['twins_sat'] += 1; break


def item(it):
  cover.start()
  desc = it['desc']
  if desc[0] == 'pair':
    res = Result(f"pair:{desc[1][1]}")
    for i, d in enumerate(desc[1:]):
      one_shape(res, d, f"_{it['i']}", pre=desc[1:1 + i])
    res['samples'].append({'shape': desc, 'note': 'same class name, permuted field order'})
  else:
    res = Result(f"{desc[1]}#{it['i']}:{SS.nbits(desc)}b")
    one_shape(res, desc, f"_{it['i']}")
    res['samples'].append({'shape': desc, 'specified_layout_msb_first': SS.spec_layout(desc)[:8]})
  return res.r


def main():
  tier = sys.argv[1] if len(sys.argv) > 1 else 'quick'
  chk = Check('C06', tier)
  shapes = CS.shapes(tier, chk.seed)
  items = [dict(i=i, desc=d) for i, d in enumerate(shapes)]
  for it, r in pmap(item, items, item_timeout=600):
    chk.absorb(it, r)
  chk.bounds = dict(shapes=len(shapes), rule='corpus/structs.py: depth <= 3, <= 3 fields per level, list dims up to [2,2,2], leaf widths {1,2,3,4,5,8,32,255,511,512}, total < 1024',
                    values='all leaf payloads and the packed value fully symbolic')
  chk.outside = ['hash consistency for values other than the four concrete patterns per shape (hash() is C-level: symbolic payloads would be enumerated)', '__str__/__repr__', 'struct shapes outside the generator']
  chk.assumptions = ['stand-ins/shims of DESIGN 4.3', 'shape descriptions are turned into types by the real mk_bitstruct; the specified layout is computed from the description only']
  chk.finish(rule="per shape 13 sub-checks (layout, from_bits, both round trips, ==, !=, clone, deepcopy, @= x3, <<= x2), one obligation per "
                  "feasible path of the generated method; distinct = discharged (shape, sub-check, path); plus per shape 4 concrete value patterns x {multi-step sequence with in-place modification of earlier results, hash consistency of equal values} (direct comparison)")


if __name__ == '__main__':
  main()
