"""Checksum FL / CL / RTL vs a Fletcher-style specification (C20, second sentence)."""
import sys


def spec_int(words):
  s1 = s2 = 0
  for w in words:
    s1 = (s1 + w) % 65536
    s2 = (s2 + s1) % 65536
  return (s2 << 16) | s1


def concrete_all(words):
  """pristine run of the three units on one input (replay)"""
  from vlib import REPO
  if REPO not in sys.path: sys.path.insert(0, REPO)
  from pymtl3 import Bits16, Bits128, DefaultPassGroup
  from examples.ex02_cksum.ChecksumFL import checksum
  from examples.ex02_cksum.ChecksumRTL import ChecksumRTL
  from examples.ex02_cksum.utils import words_to_b128
  exp = spec_int(words)
  got = int(checksum([Bits16(w) for w in words]))
  if got != exp: return f"ChecksumFL.checksum({words}) = {got:#x}, specification {exp:#x}"
  d = ChecksumRTL(); d.elaborate(); d.apply(DefaultPassGroup()); d.sim_reset()
  d.recv.msg @= words_to_b128([Bits16(w) for w in words]); d.recv.en @= 1; d.send.rdy @= 1
  d.sim_eval_combinational(); d.sim_tick()
  d.recv.en @= 0
  for _ in range(4):
    d.sim_eval_combinational()
    if d.send.en:
      if int(d.send.msg) != exp: return f"ChecksumRTL({words}) = {int(d.send.msg):#x}, specification {exp:#x}"
      break
    d.sim_tick()
  else:
    return f"ChecksumRTL({words}) produced no result within 4 cycles"
  r = _run_cl([Bits16(w) for w in words])
  if r is None or int(r) != exp: return f"ChecksumCL({words}) = {r}, specification {exp:#x}"
  return None


def _run_cl(words):
  from pymtl3 import DefaultPassGroup
  from examples.ex02_cksum.ChecksumCL import ChecksumCL
  from examples.ex02_cksum.utils import words_to_b128
  from pymtl3.stdlib.test_utils import TestSrcCL
  from pymtl3 import Component, Bits128, Bits32, CalleeIfcCL, non_blocking, connect

  class Catch(Component):
    def construct(s):
      s.got = []
    @non_blocking(lambda s: True)
    def recv(s, msg): s.got.append(msg)

  class H(Component):
    def construct(s, msg):
      s.src = TestSrcCL(Bits128, [msg]); s.dut = ChecksumCL(); s.sink = Catch()
      connect(s.src.send, s.dut.recv); connect(s.dut.send, s.sink.recv)
  h = H(words_to_b128(words)); h.elaborate(); h.apply(DefaultPassGroup()); h.sim_reset()
  for _ in range(8):
    h.sim_tick()
    if h.sink.got: return h.sink.got[0]
  return None


def symbolic(it):
  import z3
  from vlib import REPO, prove
  from vlib.pathcheck import Result
  from symx import core, pymtl as sp
  from symx.core import Explorer
  from symx.symsim import SymSim
  if REPO not in sys.path: sys.path.insert(0, REPO)
  which = it['which']
  res = Result(f"cksum/{which}")
  Bits = sp.setup()
  wv = [z3.BitVec(f'w{i}', 16) for i in range(8)]
  s1 = s2 = z3.BitVecVal(0, 16)
  for w in wv:
    s1 = s1 + w; s2 = s2 + s1          # 16-bit bit-vector arithmetic IS arithmetic mod 65536
  spec = z3.Concat(s2, s1)
  REPLAY = "sys.path.insert(0, '/verif')\nfrom checks.c20_cksum import concrete_all\nmsg = concrete_all(%r)\nif msg: reproduced(msg)\n"

  def judge(paths, value_of):
    for pc, out, exc in paths:
      res['states'] += 1; res['transitions'] += len(pc); res['obligations'] += 1
      goal = z3.BoolVal(False) if exc is not None else value_of(out) == spec
      v, m = prove(pc, goal)
      if v == 'unsat': res['discharged'] += 1; res['distinct'].append(f"{res['name']}#{res['states']}")
      elif v == 'sat':
        words = [m.eval(w, model_completion=True).as_long() for w in wv]
        res['violations'].append(dict(key=f"Checksum{which}", what=f"{res['name']}: result differs from the Fletcher specification" + (f" ({type(exc).__name__}: {exc})" if exc else ''),
                                      replay=REPLAY % (words,)))
      else: res['inconclusive'].append("solver unknown")
  if which == 'FL':
    import examples.ex02_cksum.ChecksumFL as CF
    judge(Explorer().paths(lambda: CF.checksum([sp.bv_bits(16, w) for w in wv])), lambda r: core.ubv(r._uint, 32))
  elif which == 'RTL':
    from examples.ex02_cksum.ChecksumRTL import ChecksumRTL
    sim = SymSim(ChecksumRTL())
    msg = z3.Concat(*reversed(wv))
    def run():
      sim.symbolic_state()                      # arbitrary history
      sim.set('s.reset', 1); sim.set('s.recv.en', 0); sim.set('s.send.rdy', 0)
      sim.top.sim_eval_combinational(); sim.top.sim_tick()
      sim.set('s.reset', 0); sim.set('s.recv.en', 1); sim.drive('s.recv.msg', msg); sim.set('s.send.rdy', 1)
      sim.top.sim_eval_combinational(); sim.top.sim_tick()
      sim.set('s.recv.en', 0)
      sim.top.sim_eval_combinational()
      return sim.bv('s.send.en'), sim.bv('s.send.msg')
    paths = list(Explorer(max_paths=50).paths(run))
    for pc, out, exc in paths:
      if exc is None:
        res['obligations'] += 1
        v, m = prove(pc, out[0] == 1)
        if v == 'unsat': res['discharged'] += 1
        else: res['inconclusive'].append("ChecksumRTL did not offer its result one cycle after accepting the message")
    judge(paths, lambda r: r[1])
  else:
    def run():
      return _run_cl([sp.bv_bits(16, w) for w in wv])
    judge(Explorer(max_paths=50).paths(run), lambda r: core.ubv(r._uint, 32) if r is not None else z3.BitVecVal(0, 32) + 1 - 1 if False else (core.ubv(r._uint, 32) if r is not None else ~spec))
  res['twins_expected'] = 0
  res['samples'].append(f"{res['name']}: eight symbolic 16-bit words, {res['states']} path(s)")
  return res.r
