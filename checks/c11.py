"""C11 -- combinational cycles settle on a fixed point or are reported.

The real DynamicSchedulePass / Mamba2020Pass SCC super-blocks run on a fully symbolic state; the `!=` tests of
the generated loop fork, so a path is one iteration count.  On every returning path the solver must show that no
block, if run again, changes any cell (summaries of the raw blocks); false loops must equal their acyclic twin;
convergent designs must never raise; the non-cyclic schedulers must reject the design.
"""
import sys
import z3

from vlib import Check, pmap, cover, prove
from vlib.pathcheck import Result
from symx import core
from symx.core import Explorer
from symx.symsim import SymSim
from symx.schedule import Sched

MAY_DIVERGE = {'L3', 'L9'}
BLOCK_CYCLIC = {'L2', 'L3', 'L4', 'L5', 'L6', 'L7', 'L8', 'L9', 'L10', 'L11', 'L12', 'L13', 'L14', 'L15', 'L16', 'Ring', 'RingComp', 'ForkJoin', 'RingMixed'}

REPLAY = '''
sys.path.insert(0, '/verif')
import warnings; warnings.filterwarnings('ignore')
from vlib.schedreplay import eval_outcome, twin_differs
from corpus import cycle_designs as CD
import pymtl3.passes.sim.SimpleSchedulePass as SSP
SSP.dump_dag = lambda *a, **k: None
name, group, state, expect = %(name)r, %(group)r, %(state)r, %(expect)r
if expect == 'twin':
  tw, outs = CD.TWINS[name]
  msg = twin_differs(CD.get(name), CD.get(tw), group, state, outs)
  if msg: reproduced(f"{name}: " + msg)
else:
  got = eval_outcome(CD.get(name), group, state)
  if expect == 'fixed point' and got != 'fixed point': reproduced(f"{name} [{group}] from state {state}: sim_eval_combinational() -> {got}")
  if expect == 'no error' and got == 'UpblkCyclicError': reproduced(f"{name} [{group}]: a convergent design raised UpblkCyclicError from state {state}")
'''
REPLAY_REJECT = '''
sys.path.insert(0, '/verif')
import warnings; warnings.filterwarnings('ignore')
from corpus import cycle_designs as CD
from vlib.ffreplay import apply_group
from pymtl3.dsl.errors import UpblkCyclicError
import pymtl3.passes.sim.SimpleSchedulePass as SSP
SSP.dump_dag = lambda *a, **k: None
try:
  top = CD.get(%(name)r)(); apply_group(top, %(group)r)
  reproduced(%(name)r + ": group " + %(group)r + " scheduled a cyclic design instead of raising UpblkCyclicError")
except UpblkCyclicError:
  pass
'''


def item_cycle(it):
  cover.start()
  import warnings; warnings.filterwarnings('ignore')
  from corpus import cycle_designs as CD
  name, g = it['name'], it['group']
  res = Result(f"cycle/{name}/{g}")
  sim = SymSim(CD.get(name)(), group=g)
  top = sim.top
  sc = Sched(sim)
  probe = {}

  def run():
    v = sim.symbolic_state(); probe.update(v)
    top.sim_eval_combinational()
    return sim.state_terms()
  twin_terms = None
  if name in CD.TWINS:
    tw, outs = CD.TWINS[name]
    ts = SymSim(CD.get(tw)(), group='default')
    for pc, st, exc in Explorer().paths(lambda: (ts.symbolic_state(), ts.top.sim_eval_combinational(), ts.state_terms())[2]):
      twin_terms = {o: st[ts.by_name[o].name] for o in outs}
  ex = Explorer(max_paths=3000, max_decisions=20000)
  nret = nerr = 0
  state_of = lambda m: {n: m.eval(x, model_completion=True).as_long() for n, x in probe.items()}
  for pc, st, exc in ex.paths(run):
    res['states'] += 1; res['transitions'] += len(pc)
    if exc is not None:
      nerr += 1
      res['obligations'] += 1
      en = type(exc).__name__
      if en != 'UpblkCyclicError':
        v, m = prove(pc, z3.BoolVal(False))
        res['violations'].append(dict(key=f"cycle:{name}:{g}:raises {en}", what=f"{res['name']}: evaluation raised {en}: {exc}",
                                      replay=REPLAY % dict(name=name, group=g, state=state_of(m) if v == 'sat' else {}, expect='fixed point')))
      elif name not in MAY_DIVERGE:
        v, m = prove(pc, z3.BoolVal(False))
        res['violations'].append(dict(key=f"cycle:{name}:{g}:spurious error", what=f"{res['name']}: a convergent design raised UpblkCyclicError",
                                      replay=REPLAY % dict(name=name, group=g, state=state_of(m) if v == 'sat' else {}, expect='no error')))
      else:
        res['discharged'] += 1
      continue
    nret += 1
    res['obligations'] += 1
    v, m = prove(pc, z3.Not(sc.fixed_point_violation(st)))
    if v == 'unsat':
      res['discharged'] += 1; res['distinct'].append(f"{res['name']}#{res['states']}")
    elif v == 'sat':
      res['violations'].append(dict(key=f"cycle:{name}:{g}:not a fixed point", what=f"{res['name']}: evaluation returned although some block would still change a signal",
                                    replay=REPLAY % dict(name=name, group=g, state=state_of(m), expect='fixed point')))
    else: res['inconclusive'].append(f"fixed point: solver unknown {m}")
    if twin_terms is not None:
      res['obligations'] += 1
      goal = z3.And(*[st[sim.by_name[o].name] == t for o, t in twin_terms.items()])
      v, m = prove(pc, goal)
      if v == 'unsat': res['discharged'] += 1
      elif v == 'sat':
        res['violations'].append(dict(key=f"cycle:{name}:{g}:differs from acyclic twin", what=f"{res['name']}: false loop result differs from the equivalent acyclic design",
                                      replay=REPLAY % dict(name=name, group=g, state=state_of(m), expect='twin')))
      else: res['inconclusive'].append("twin: solver unknown")
  res['twins_expected'] = 1
  res['twins_sat'] = 1 if nret > 0 else 0
  res['note'] = f"{nret} returning paths (iteration counts), {nerr} error paths, {len(sc.blks)} blocks"
  res['samples'].append(f"{res['name']}: {res['note']}")
  return res.r


def item_reject(it):
  cover.start()
  import warnings; warnings.filterwarnings('ignore')
  from corpus import cycle_designs as CD
  from vlib.ffreplay import apply_group
  from pymtl3.dsl.errors import UpblkCyclicError
  import pymtl3.passes.sim.SimpleSchedulePass as SSP
  SSP.dump_dag = lambda *a, **k: None
  res = Result("reject")
  cases = [(n, g) for n in sorted(BLOCK_CYCLIC) for g in ('simple', 'unroll', 'heutopo')] + [('Once', g) for g in ('default', 'mamba', 'simple')]
  for n, g in cases:
    res['obligations'] += 1; res['states'] += 1
    try:
      top = CD.get(n)(); apply_group(top, g)
      res['violations'].append(dict(key=f"cycle:{n}:{g}:not rejected", what=f"{n}: group {g} accepts a cyclic design", replay=REPLAY_REJECT % dict(name=n, group=g)))
    except UpblkCyclicError:
      res['discharged'] += 1; res['distinct'].append(f"reject:{n}/{g}")
    except Exception as e:
      res['inconclusive'].append(f"{n}/{g}: {type(e).__name__}: {e}")
  res['transitions'] = res['states']
  res['samples'].append("block-level cyclic designs under SimpleSchedulePass/UnrollSim/HeuristicTopoPass and update_once in a cycle: UpblkCyclicError at scheduling time")
  return res.r


def dispatch(it):
  return {'cycle': item_cycle, 'reject': item_reject}[it['kind']](it)


def main():
  tier = sys.argv[1] if len(sys.argv) > 1 else 'quick'
  chk = Check('C11', tier)
  from corpus import cycle_designs as CD
  items = [dict(kind='reject', name='reject')]
  for n in CD.NAMES:
    for g in ('default', 'mamba'): items.append(dict(kind='cycle', name=n, group=g))
  for it, r in pmap(dispatch, items, item_timeout=1200):
    chk.absorb(it, r)
  chk.bounds = dict(designs=CD.NAMES, loop_carried_widths='2..8 bits', iteration_bound='the real 100-iteration bound is reached on the divergent paths', groups=['default (DynamicSchedulePass)', 'mamba'])
  chk.outside = ['cycle shapes outside the corpus', 'wider loop-carried signals (iteration depth grows with width)']
  chk.assumptions = ['fixed-point oracle = summaries of the raw update/net blocks of the same instance (all cells symbolic)']
  chk.finish(rule="per (design, cyclic-capable group): one obligation per returning path (= iteration count): no block would change any cell; twin equality for false loops; "
                  "error paths only for designs that can diverge; rejection by the acyclic schedulers")


if __name__ == '__main__':
  main()
