"""C20 -- FL, CL and RTL example processors agree with the ISA on every program; checksum units agree.

Processors: the tutorial's own TestHarness (TestSrcCL, TestSinkCL, MagicMemoryCL, NullXcelRTL) runs unmodified around
ProcFL / ProcCL / ProcRTL in fork mode; every mngr2proc value is a symbolic 32-bit word; the expected proc2mngr stream
and final memory come from an independent TinyRV0 interpreter (specs/tinyrv0.py) as z3 terms and are handed to the real
TestSinkCL, whose comparison forks: a feasible mismatch / sink error / hang is the counterexample.
Checksum: FL function, CL and RTL units vs a 6-line Fletcher specification for all 2^128 inputs.
"""
import sys
import z3

from vlib import Check, pmap, cover, prove
from vlib.pathcheck import Result
from symx import core, pymtl as sp
from symx.core import Explorer, fresh

REPLAY_PROC = '''
sys.path.insert(0, '/verif'); sys.path.insert(0, %(repo)r)
import warnings; warnings.filterwarnings('ignore')
from specs import tinyrv0 as ISA
from corpus.tinyrv0_progs import PROGS
from examples.ex03_proc.tinyrv0_encoding import assemble
from examples.ex03_proc.test.harness import TestHarness
from examples.ex03_proc.ProcFL import ProcFL
from examples.ex03_proc.ProcCL import ProcCL
from examples.ex03_proc.ProcRTL import ProcRTL
from pymtl3 import *
import struct
prog, level, timing, inputs = %(prog)r, %(level)r, %(timing)r, %(inputs)r
img = assemble(PROGS[prog])
text = [sec for sec in img.get_sections() if sec.name == '.text'][0]
words = [w[0] for w in struct.iter_unpack('<I', bytes(text.data))]
alts = ISA.run(ISA.IntOps(), text.addr, words, {}, inputs, max_steps=2000)
conds, outs, mem, steps, ninp = alts[0]
inputs_all = inputs; inputs = inputs[:ninp]
cls = {'FL': ProcFL, 'CL': ProcCL, 'RTL': ProcRTL}[level]
th = TestHarness(cls, src_delay=timing[0], sink_delay=timing[1], mem_latency=timing[2])
th.elaborate(); th.load(img)
th.src.msgs.clear(); th.src.msgs.extend(Bits32(v) for v in inputs)
got = []
th.sink.msgs.clear() if hasattr(th.sink.msgs, 'clear') else None; th.sink.msgs.extend(Bits32(v) for v in outs)
th.apply(DefaultPassGroup())
n = 0
try:
  th.sim_reset()
  while not th.done() and n < %(maxcyc)d:
    th.sim_tick(); n += 1
except Exception as e:
  reproduced(f"Proc{level} program {prog} timing {timing} inputs {inputs}: {type(e).__name__}: {str(e)[:300]}  (ISA interpreter expects proc2mngr = {outs})")
if not th.done(): reproduced(f"Proc{level} program {prog} timing {timing} inputs {inputs}: not finished after {n} cycles (ISA interpreter expects proc2mngr = {outs})")
for a, v in mem.items():
  w = struct.unpack('<I', bytes(th.mem.read_mem(a, 4)))[0]
  if w != v: reproduced(f"Proc{level} program {prog} inputs {inputs}: memory word at {a:#x} is {w:#x}, ISA interpreter says {v:#x}")
'''
REPLAY_CK = '''
sys.path.insert(0, '/verif'); sys.path.insert(0, %(repo)r)
import warnings; warnings.filterwarnings('ignore')
from checks.c20_cksum import concrete_all
msg = concrete_all(%(words)r)
if msg: reproduced(msg)
'''


def item_proc(it):
  cover.start()
  import warnings; warnings.filterwarnings('ignore')
  import struct
  from vlib import REPO
  if REPO not in sys.path: sys.path.insert(0, REPO)
  from symx.forkx import ForkExplorer
  from symx.symmem import SymByteArray
  from specs import tinyrv0 as ISA
  from corpus.tinyrv0_progs import PROGS
  import pymtl3.extra.pypy.fast_bytearray_funcs as FB
  import pymtl3.stdlib.mem.MagicMemoryFL as MF
  import pymtl3.stdlib.mem.mem_ifcs as MI
  Bits = sp.setup((FB, MI))
  MF.read_bytearray_bits = FB.read_bytearray_bits; MF.write_bytearray_bits = FB.write_bytearray_bits
  from examples.ex03_proc.tinyrv0_encoding import assemble
  from examples.ex03_proc.test.harness import TestHarness
  from examples.ex03_proc.ProcFL import ProcFL
  from examples.ex03_proc.ProcCL import ProcCL
  from examples.ex03_proc.ProcRTL import ProcRTL
  from pymtl3 import DefaultPassGroup
  import examples.ex03_proc.ProcFL as PFL, examples.ex03_proc.ProcCL as PCL
  core.install(PFL.__dict__); core.install(PCL.__dict__)
  prog, level, timing = it['prog'], it['level'], tuple(it['timing'])
  name = f"proc/{level}/{prog}/src{timing[0]}-sink{timing[1]}-lat{timing[2]}" + ('/stalls' if it.get('stalls') else '')
  res = Result(name)
  img = assemble(PROGS[prog])
  text = [sec for sec in img.get_sections() if sec.name == '.text'][0]
  words = [w[0] for w in struct.iter_unpack('<I', bytes(text.data))]
  nin = sum(1 for sec in img.get_sections() if sec.name == '.mngr2proc' for _ in struct.iter_unpack('<I', bytes(sec.data)))
  ins = [z3.BitVec(f'in{i}', 32) for i in range(nin)]
  alts = ISA.run(ISA.Z3Ops(), text.addr, words, {}, ins, max_steps=2000)
  cls = {'FL': ProcFL, 'CL': ProcCL, 'RTL': ProcRTL}[level]
  # bound on cycles per path: measured need is < 9% of 12x; 3x keeps a > 3-fold margin and makes a run-away processor cheap to report
  maxcyc = 60 + 3 * max(a[3] for a in alts) * (1 + timing[2] + (timing[0] + timing[1]) // 2)
  mx = [0]
  for ai, (conds, outs, mem, steps, ninp) in enumerate(alts):
    def body():
      th = TestHarness(cls, src_delay=timing[0], sink_delay=timing[1], mem_latency=timing[2], mem_stall_prob=0.5 if it.get('stalls') else 0)
      th.elaborate(); th.load(img)
      if it.get('stalls'):
        from checks.c18 import SymStall
        for i, st in enumerate(th.mem.req_stalls): st.stall_rgen = SymStall(i, budget=1)      # every placement of one stall per memory port
      th.src.msgs.clear(); th.src.msgs.extend(sp.bv_bits(32, v) for v in ins[:ninp])      # exactly the messages the ISA consumes on this alternative
      del th.sink.msgs[:]
      th.sink.msgs += [sp.bv_bits(32, z3.simplify(o)) if not z3.is_bv_value(z3.simplify(o)) else Bits(32, z3.simplify(o).as_long()) for o in outs]
      th.mem.mem.mem = SymByteArray(th.mem.mem.mem)
      th.apply(DefaultPassGroup()); th.sim_reset()
      n = 0
      while not th.done() and n < maxcyc:
        th.sim_tick(); n += 1
      return th, n

    def leaf(pc, out, exc):
      rec = dict(obligations=1, discharged=0, violations=[], inconclusive=[], decisions=len(pc))
      full = list(conds) + pc
      def viol(what, extra=()):
        sv = z3.Solver(); sv.add(*full, *extra)
        if sv.check() != z3.sat: rec['inconclusive'].append(f"{what}: path condition not satisfiable?"); return
        m = sv.model()
        inputs = [m.eval(v, model_completion=True).as_long() for v in ins]
        rec['violations'].append(dict(key=f"Proc{level}:{prog}", what=f"{name}: {what}",
                                      replay=REPLAY_PROC % dict(repo=REPO, prog=prog, level=level, timing=timing, inputs=inputs, maxcyc=maxcyc)))
      if exc is not None:
        viol(f"{type(exc).__name__}: {str(exc)[:200]}"); return rec
      th, n = out
      if not th.done():
        viol(f"not finished after {n} cycles (deadlock or lost message)"); return rec
      ok = True
      for a, v in mem.items():
        got = th.mem.mem.mem.word(a)
        rec['obligations'] += 1
        r, mdl = prove(full, core.ubv(got, 32) == v)
        if r == 'unsat': rec['discharged'] += 1
        elif r == 'sat': viol(f"final memory word at {a:#x} differs from the ISA interpreter", [core.ubv(got, 32) != v]); ok = False; break
        else: rec['inconclusive'].append("memory: solver unknown"); ok = False
      if ok: rec['discharged'] += 1
      rec['cycles'] = n
      rec['sample'] = f"{name}: ISA alternative {ai} ({len(conds)} branch/address conditions), {n} cycles, {len(outs)} proc2mngr values checked by the real sink"
      return rec
    fx = ForkExplorer(base_pc=conds, leaf=leaf, max_paths=4000, timeout_s=it.get('budget_s', 400))
    for r in fx.run(body):
      if 'error' in r: res['inconclusive'].append(r['error']); continue
      res['states'] += 1; res['transitions'] += r['decisions']
      res['obligations'] += r['obligations']; res['discharged'] += r['discharged']
      res['inconclusive'] += r['inconclusive']
      if r['violations'] and len(res['violations']) < 2: res['violations'] += r['violations']
      if not res['samples'] and 'sample' in r: res['samples'].append(r['sample'])
      mx[0] = max(mx[0], r.get('cycles', 0))
  res['distinct'] = [f"{name}#{i}" for i in range(res['discharged'])]
  res['twins_expected'] = 0
  res['note'] = f"{len(alts)} ISA alternatives, {res['states']} implementation paths, max {mx[0]} cycles (bound {maxcyc})"
  return res.r


def item_cksum(it):
  cover.start()
  import warnings; warnings.filterwarnings('ignore')
  from checks import c20_cksum
  return c20_cksum.symbolic(it)


def dispatch(it):
  return {'proc': item_proc, 'cksum': item_cksum}[it['kind']](it)


def main():
  tier = sys.argv[1] if len(sys.argv) > 1 else 'quick'
  chk = Check('C20', tier)
  from corpus.tinyrv0_progs import PROGS, TIMINGS
  items = [dict(kind='cksum', name='cksum', which=w) for w in ('FL', 'RTL', 'CL')]
  tms = TIMINGS[:4] if tier == 'quick' else TIMINGS
  for p in PROGS:
    for lv in ('FL', 'CL', 'RTL'):
      for i, t in enumerate(tms):
        if tier == 'quick' and lv != 'RTL' and i >= 2: continue
        items.append(dict(kind='proc', name=f"{lv}/{p}/{t}", prog=p, level=lv, timing=list(t)))
  if tier == 'thorough':       # one symbolic stall per memory port at every possible position (RTL: ~2000 paths per program)
    for p in ['adj_csrw_csrw', 'store_load', 'adj_lw', 'csrw_then_branch', 'back_loop']:
      for lv in ('FL', 'CL') + (('RTL',) if p == 'adj_csrw_csrw' else ()):
        items.append(dict(kind='proc', name=f"{lv}/{p}/stalls", prog=p, level=lv, timing=[0, 1, 1], stalls=True, budget_s=3000 if lv == 'RTL' else 900))
  items.sort(key=lambda it: 0 if it.get('level') == 'RTL' else 1)
  for it, r in pmap(dispatch, items, item_timeout=1500 if tier == 'quick' else 4000):
    chk.absorb(it, r)
  chk.bounds = dict(programs=list(PROGS), timings=[list(t) for t in tms], inputs='every mngr2proc value a symbolic 32-bit word', memory_window='0x2000..0x200f via program-internal masking',
                    checksum='all 8 x 16 input bits symbolic')
  chk.outside = ['programs outside the skeleton set (no claim "for every TinyRV0 program")', 'self-modifying code', 'xcel instructions',
                 'more than one memory stall per port (one stall per port at every possible position is explored for selected programs)']
  chk.assumptions = ['program text is assembled by the repo assembler; the interpreter decodes the encoded words per tinyrv0-isa.md',
                     'bytearray behind MagicMemoryFL replaced by SymByteArray (symbolic addresses are concretised by forking)']
  chk.finish(rule="per (level, program, timing): one fork-mode exploration per ISA alternative (branch outcomes / addresses); the real TestSinkCL comparison is the assertion; "
                  "plus final memory words by z3; checksum: one obligation per path per unit for all 2^128 inputs")


if __name__ == '__main__':
  main()
