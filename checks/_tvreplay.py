"""Concrete replay of a translation-validation counterexample: pristine pymtl3 translates and simulates
(stock DefaultPassGroup, no proxies); svsem evaluates the emitted text on the same concrete inputs."""
import warnings

import z3

warnings.filterwarnings('ignore')


def replay_tv(name, backend, K, inputs):
  from corpus import tv_designs
  from checks._tv import translate, TV, leaf_layout
  from svsem.sem import SVSyntaxError, SVUnsupported
  from svsem.elab import Design
  from pymtl3 import DefaultPassGroup
  from pymtl3.dsl import InPort, OutPort
  from pymtl3.datatypes import Bits
  mk = tv_designs.get(name)
  txt, topname = translate(mk, backend)
  try:
    D = Design(txt, topname)
  except SVSyntaxError as e:
    return f"emitted text is not well-formed: {e}"
  dut = mk(); dut.elaborate(); dut.apply(DefaultPassGroup())
  tops = [x for x in dut._dsl.all_signals if x.is_top_level_signal() and x.get_host_component() is dut]
  ins = sorted([x for x in tops if isinstance(x, InPort) and repr(x) != 's.clk'], key=repr)
  outs = sorted([x for x in tops if isinstance(x, OutPort)], key=repr)
  get = lambda sig: eval(repr(sig), {'s': dut})

  _B = Bits

  class FakeSim:      # just enough of SymSim for TV.sv_set / sv_get
    Bits = _B
    sig_value = {}
    def value_nbits(s, v):
      if isinstance(v, Bits): return v.nbits
      if isinstance(v, list): return sum(s.value_nbits(x) for x in v)
      return sum(s.value_nbits(getattr(v, f)) for f in v.__bitstruct_fields__)
  tv = TV(name, mk, backend, K); tv.sim = FakeSim(); tv.Bits = Bits
  for sig in ins + outs: tv.sim.sig_value[repr(sig)] = get(sig)
  def packed(v): return int(v.to_bits()) if hasattr(v, 'to_bits') else int(v)
  def assign(sig, val):
    x = get(sig); w = tv.sim.value_nbits(x)
    if isinstance(x, Bits): x @= val
    else: x @= type(x).from_bits(Bits(w, val))
  vals = D.zero_vals()
  try:
    for cyc in range(K):
      for sig in ins:
        w = tv.sim.value_nbits(get(sig)); v = inputs.get(f"{cyc}|{repr(sig)}", 0)
        assign(sig, v)
        tv.sv_set(vals, sig, z3.BitVecVal(v, w))
      for phase in ('comb', 'tick'):
        try:
          if phase == 'comb': dut.sim_eval_combinational()
          else: dut.sim_tick()
        except Exception as e:
          return None        # the PyMTL simulation raises on this input: nothing to compare
        vals = D.settle(vals) if phase == 'comb' else D.settle(D.edge(vals))
        for sig in outs:
          pv = packed(get(sig))
          for label, sv, off, wd in tv.sv_get(vals, sig):
            sv = z3.simplify(sv)
            if not z3.is_bv_value(sv): return f"svsem did not reduce {label} to a constant"
            exp = (pv >> off) & ((1 << wd) - 1)
            if sv.as_long() != exp:
              return f"cycle {cyc} after {phase}: output {label} = {sv.as_long():#x} in the emitted text, {exp:#x} in the PyMTL simulation (inputs {inputs})"
      if cyc == 0: D.check_drivers()
  except SVSyntaxError as e:
    return f"emitted text is not well-formed: {e}"
  return None
