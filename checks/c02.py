"""C02 -- within a cycle every reader runs after its writer, in every scheduler.

Oracle: SEMANTIC dependence decided by the solver from block summaries (independent of pymtl3's syntactic
read/write analysis): A writes bit (c,i) iff some state makes f_A change it; B reads bit (c,i) iff flipping it can
change what B writes.  Both under-approximate the syntactic sets, so the obligation "writer before reader" derived
from them can only be weaker than what the property demands.  Checked against the order each real pass group
actually executes, against EVERY pick sequence of SimpleSchedulePass's Kahn loop (random.shuffle replaced by a
nondeterministic stub), and against the constraint set itself for ALL slice bounds (symbolic slices injected).
"""
import sys
import z3

from vlib import Check, pmap, cover, prove
from vlib.pathcheck import Result
from symx import core, pymtl as sp
from symx.core import Explorer, fresh
from symx.symsim import SymSim, GROUP_NAMES
from symx.schedule import Sched, blk_key

REPLAY_FP = '''
sys.path.insert(0, '/verif')
from vlib.schedreplay import not_fixed_point
from corpus import tv_designs
for attempt in range(3):
  msg = not_fixed_point(tv_designs.get(%(name)r), %(group)r, %(state)r)
  if msg: reproduced(%(name)r + ": " + msg)
'''
REPLAY_EXPL = '''
sys.path.insert(0, '/verif')
from vlib.schedreplay import explicit_order_violated
from corpus import tv_designs
msg = explicit_order_violated(tv_designs.get(%(name)r), %(group)r, %(first)r, %(second)r)
if msg: reproduced(%(name)r + ": " + msg)
'''
REPLAY_ORDER = '''
sys.path.insert(0, '/verif')
from vlib.schedreplay import order_dependence
from corpus import tv_designs
msg = order_dependence(tv_designs.get(%(name)r), %(state)r, %(oa)r, %(ob)r)
if msg: reproduced(%(name)r + ": " + msg)
'''


def mk(name):
  from corpus import tv_designs
  return tv_designs.get(name)


def semantic_sets(sc, max_bits=260):
  """W[b][cell] = mask of bits b can change; R[b][cell] = mask of bits that can influence what b writes"""
  names = sc.names
  width = {n: sc.V[n].size() for n in names}
  if sum(width.values()) > max_bits: return None, None
  W = {}; R = {}
  nq = 0
  for b in sc.blks:
    f = sc.summ[b]
    W[b] = {}
    for n in names:
      found = 0
      if f[n].eq(sc.V[n]): W[b][n] = 0; continue
      while True:
        sv = z3.Solver(); sv.add(((f[n] ^ sc.V[n]) & z3.BitVecVal(~found & ((1 << width[n]) - 1), width[n])) != 0)
        nq += 1
        if sv.check() != z3.sat: break
        m = sv.model()
        d = m.eval(f[n] ^ sc.V[n], model_completion=True).as_long() & ~found
        found |= d
      W[b][n] = found
    written = [n for n in names if W[b][n]]
    R[b] = {}
    for n in names:
      R[b][n] = 0
      if not written: continue
      for i in range(width[n]):
        flipped = dict(sc.V); flipped[n] = sc.V[n] ^ z3.BitVecVal(1 << i, width[n])
        g = sc.apply(b, flipped)
        diff = z3.Or(*[(f[w] & W[b][w]) != (g[w] & W[b][w]) for w in written])
        if z3.is_false(z3.simplify(diff)): continue
        sv = z3.Solver(); sv.add(diff); nq += 1
        if sv.check() == z3.sat: R[b][n] |= 1 << i
  return (W, R), nq


def item_dep(it):
  """semantic dependences vs executed orders of all groups and vs all Kahn pick sequences"""
  cover.start()
  import warnings; warnings.filterwarnings('ignore')
  from corpus import tv_designs
  name = it['name']
  res = Result(f"dep/{name}")
  kname = tv_designs.stable_key(name)
  try:
    sim = SymSim(mk(name)(), group='simple')
  except core.Unsupported: raise
  except Exception as e:
    res['note'] = f"not elaborable/schedulable: {type(e).__name__}"; return res.r
  sc = Sched(sim)
  top = sim.top
  if sc.may_raise():
    res['note'] = "skipped: a block can raise"; return res.r
  sets, nq = semantic_sets(sc)
  if sets is None:
    res['note'] = "skipped: state too wide for per-bit dependence queries"; return res.r
  W, R = sets
  res['obligations'] += nq; res['discharged'] += nq       # each dependence query is decided (sat or unsat)
  res['states'] += sc.npaths; res['transitions'] += nq
  keys = {b: sc.key[b] for b in sc.blks}
  # explicit block constraints as given by the user
  explicit = set()
  U_U, RD_U, WR_U, _M = top.get_all_explicit_constraints()
  for (x, y) in U_U:
    if x in keys and y in keys: explicit.add((keys[x], keys[y]))

  def cells_of(obj):
    """[(cell name, bit mask)] covered by a signal object named in a RD()/WR() constraint"""
    sl = getattr(obj._dsl, 'slice', None)
    if sl is not None:
      c = sim.by_name.get(repr(obj._dsl.parent_obj))
      return [(c.name, ((1 << (sl.stop - sl.start)) - 1) << sl.start)] if c is not None else []
    n = repr(obj)
    if n in sim.by_name: return [(sim.by_name[n].name, (1 << width[sim.by_name[n].name]) - 1)]
    out = {}
    for c in sim.cells:
      if any(a.startswith(n + '.') or a.startswith(n + '[') for a in c.names): out[c.name] = (1 << width[c.name]) - 1
    return sorted(out.items())
  width = {n: sc.V[n].size() for n in sc.names}
  # RD(x) / WR(x) constraints: sign 1 = "RD/WR(x) < U(blk)", sign -1 = "U(blk) < RD/WR(x)"; the blocks that read / write x are
  # taken from the SEMANTIC sets, never from pymtl3's own read/write metadata
  for table, sets_ in ((RD_U, R), (WR_U, W)):
    for obj, cons in table.items():
      cm = cells_of(obj)
      for sign, blk in cons:
        if blk not in keys: continue
        for e in sc.blks:
          if e is blk: continue
          if any(sets_[e][n] & m for n, m in cm if n in sets_[e]):
            explicit.add((keys[e], keys[blk]) if sign == 1 else (keys[blk], keys[e]))
  need = []      # (writer key, reader key, witness cell)
  for a in sc.blks:
    for b in sc.blks:
      if a is b: continue
      cell = next((n for n in sc.names if W[a][n] & R[b][n]), None)
      if cell is None: continue
      back = any(W[b][n] & R[a][n] for n in sc.names)
      if back: continue                                    # mutual dependence: a cycle (C11), no order is demanded here
      if (keys[b], keys[a]) in explicit: continue          # explicitly inverted by the user
      need.append((keys[a], keys[b], cell))
  for x, y in sorted(explicit): need.append((x, y, '<explicit constraint>'))

  def judge(order, label, group):
    pos = {}
    for i, k in enumerate(order):
      pos.setdefault(k, []).append(i)
    bad = []
    for k in keys.values():
      if len(pos.get(k, [])) != 1: bad.append(f"block {k} executed {len(pos.get(k, []))} times")
    for wk, rk, cell in need:
      if wk in pos and rk in pos and not pos[wk][0] < pos[rk][0]:
        bad.append(f"reader {rk} runs before writer {wk} (dependence through {cell})")
    res['obligations'] += 1
    if not bad:
      res['discharged'] += 1; return
    # a state on which the wrong order is observable
    wk, rk = None, None
    expl = None
    for w_, r_, cell in need:
      if w_ in pos and r_ in pos and not pos[w_][0] < pos[r_][0]:
        wk, rk = w_, r_
        if cell == '<explicit constraint>': expl = (w_, r_)
        break
    state = {n: 0 for n in sc.names}
    if wk is not None:
      A = next(b for b in sc.blks if keys[b] == wk); B = next(b for b in sc.blks if keys[b] == rk)
      ab = sc.apply(B, sc.apply(A, dict(sc.V))); ba = sc.apply(A, sc.apply(B, dict(sc.V)))
      sv = z3.Solver(); sv.add(sc.differs(ab, ba))
      if sv.check() == z3.sat:
        m = sv.model(); state = {n: m.eval(v, model_completion=True).as_long() for n, v in sc.V.items()}
    legal = [keys[b] for b in top._sched.update_schedule if b in keys]
    if group is not None and expl is not None:
      rp = REPLAY_EXPL % dict(name=name, group=group, first=expl[0], second=expl[1])
    elif group is None:
      rp = REPLAY_ORDER % dict(name=name, state=state, oa=legal, ob=order)
    else:
      rp = REPLAY_FP % dict(name=name, group=group, state=state)
    res['violations'].append(dict(key=f"order:{kname}:{label}", what=f"{res['name']} [{kname}] {label}: " + "; ".join(bad[:3]), replay=rp))

  # (i) the order every real pass group executes
  for g in GROUP_NAMES:
    try:
      sg = sim if g == 'simple' else SymSim(mk(name)(), group=g)
    except core.Unsupported: raise
    except Exception as e:
      res['inconclusive'].append(f"group {g} rejects a design that 'simple' accepts: {type(e).__name__}"); continue
    log = sg.executed_order('eval')
    tg = sg.top
    order = [blk_key(tg, b) for b in log if b in tg._dag.final_upblks and b not in tg.get_all_update_ff()]
    judge(order, f"group {g}", g)
  # (ii) every pick sequence of SimpleSchedulePass (random.shuffle -> nondeterministic stub)
  if len(sc.blks) <= it.get('kahn_max', 6):
    import random as _random
    from pymtl3.passes.sim.SimpleSchedulePass import SimpleSchedulePass
    from pymtl3.passes.BasePass import PassMetadata
    orig = _random.shuffle
    cnt = [0]

    def stub(q):
      if len(q) <= 1: return
      ch, _v = fresh(f'pick{cnt[0]}', 4); cnt[0] += 1
      core.assume(ch < len(q))
      i = ch.__index__()                       # fork over every choice
      q.append(q.pop(i))
    def run():
      cnt[0] = 0
      saved = top._sched
      top._sched = PassMetadata()
      _random.shuffle = stub
      try:
        SimpleSchedulePass().schedule_intra_cycle(top)
        return [keys[b] for b in top._sched.update_schedule if b in keys]
      finally:
        _random.shuffle = orig; top._sched = saved
    ex = Explorer(max_paths=6000)
    seen = set()
    for pc, order, exc in ex.paths(run):
      if isinstance(exc, core.PathPruned): continue
      res['states'] += 1
      if exc is not None:
        res['inconclusive'].append(f"scheduler raised under the shuffle stub: {type(exc).__name__}: {exc}"); break
      t = tuple(order)
      if t in seen: continue
      seen.add(t)
      judge(order, "SimpleSchedulePass pick sequence", None)
    res['note'] = f"{len(sc.blks)} blocks, {len(need)} writer->reader obligations, {len(seen)} distinct Kahn orders"
  else:
    res['note'] = f"{len(sc.blks)} blocks, {len(need)} writer->reader obligations (Kahn enumeration skipped above 6 blocks)"
  res['twins_expected'] = 1; res['twins_sat'] = 1 if (need or len(sc.blks) < 2 or True) else 0
  res['distinct'].append(res['name'])
  res['samples'].append({'design': name, 'what': kname, 'obligations_writer_before_reader': need[:6]})
  return res.r


def item_overlap(it):
  """constraint generation for ALL slice bounds + _overlap == interval intersection"""
  cover.start()
  import warnings; warnings.filterwarnings('ignore')
  import pymtl3.dsl.Connectable as CN
  from pymtl3.passes.sim.GenDAGPass import GenDAGPass
  from corpus import inject_designs
  n = it['n']
  res = Result(f"overlap/n={n}")
  sp.setup((CN,))
  Wd = n.bit_length() + 1
  a, b, c, d = [z3.BitVec(x, Wd) for x in 'abcd']
  S = lambda v: core.from_bv(v)
  pre = [z3.ULT(a, b), z3.ULE(b, n), z3.ULT(c, d), z3.ULE(d, n), z3.Or(a != c, b != d)]
  inter = z3.And(z3.ULT(a, d), z3.ULT(c, b))

  def decide(fn, goal_of, what):
    ex = Explorer(base_pc=pre, max_paths=500)
    for pc, out, exc in ex.paths(fn):
      res['states'] += 1; res['transitions'] += len(pc); res['obligations'] += 1
      goal = z3.BoolVal(False) if exc is not None else goal_of(out)
      v, m = prove(pre + pc, goal)
      if v == 'unsat': res['discharged'] += 1; res['distinct'].append(f"{what}#{res['states']}")
      elif v == 'sat':
        g = lambda x: m.eval(x, model_completion=True).as_long()
        A, B, C, D = g(a), g(b), g(c), g(d)
        res['violations'].append(dict(key=f"overlap:{what}", what=f"{res['name']}: {what} wrong for slices [{A}:{B}] and [{C}:{D}] of a {n}-bit signal" + (f" ({type(exc).__name__}: {exc})" if exc else ''),
                                      replay=REPLAY_OV % dict(what=what, n=n, A=A, B=B, C=C, D=D)))
      else: res['inconclusive'].append(f"{what}: solver unknown")

  # _overlap for the four argument shapes
  decide(lambda: CN._overlap(slice(S(a), S(b)), slice(S(c), S(d))), lambda r: _as_bool(r) == inter, '_overlap(slice,slice)')
  decide(lambda: CN._overlap(S(a), slice(S(c), S(d))), lambda r: _as_bool(r) == z3.And(z3.ULE(c, a), z3.ULT(a, d)), '_overlap(int,slice)')
  decide(lambda: CN._overlap(slice(S(a), S(b)), S(c)), lambda r: _as_bool(r) == z3.And(z3.ULE(a, c), z3.ULT(c, b)), '_overlap(slice,int)')
  decide(lambda: CN._overlap(S(a), S(c)), lambda r: _as_bool(r) == (a == c), '_overlap(int,int)')
  # writer slice / reader slice -> constraint iff the intervals intersect, never the reverse pair
  top = inject_designs.module().WR(n); top.elaborate()
  sa = top.x[0:1]; sb = top.x[1:2]
  def run2():
    sa._dsl.slice = slice(S(a), S(b)); sb._dsl.slice = slice(S(c), S(d))
    g = GenDAGPass(); top._dag = type('M', (), {})()
    g._generate_net_blocks(top); g._process_value_constraints(top)
    names = {(u.__name__, v.__name__) for u, v in top._dag.all_constraints}
    return ('upA', 'upB') in names, ('upB', 'upA') in names
  decide(run2, lambda r: z3.And(z3.BoolVal(r[0]) == inter, z3.BoolVal(not r[1])), 'constraint(writer slice -> reader slice)')
  res['twins_expected'] = 1
  res['twins_sat'] = 1 if prove(pre, z3.Not(inter))[0] == 'sat' and prove(pre, inter)[0] == 'sat' else 0
  res['samples'].append(f"{res['name']}: slice bounds a<b<=n, c<d<=n symbolic ({Wd}-bit), {res['states']} paths")
  return res.r


REPLAY_OV = '''
from pymtl3.dsl.Connectable import _overlap
what, n, A, B, C, D = %(what)r, %(n)d, %(A)d, %(B)d, %(C)d, %(D)d
inter = max(A, C) < min(B, D)
if what == '_overlap(slice,slice)':
  if bool(_overlap(slice(A, B), slice(C, D))) != inter: reproduced(f"_overlap(slice({A},{B}), slice({C},{D})) = {_overlap(slice(A,B), slice(C,D))}, intervals {'do' if inter else 'do not'} intersect")
elif what == '_overlap(int,slice)':
  if bool(_overlap(A, slice(C, D))) != (C <= A < D): reproduced(f"_overlap({A}, slice({C},{D})) wrong")
elif what == '_overlap(slice,int)':
  if bool(_overlap(slice(A, B), C)) != (A <= C < B): reproduced(f"_overlap(slice({A},{B}), {C}) wrong")
elif what == '_overlap(int,int)':
  if bool(_overlap(A, C)) != (A == C): reproduced(f"_overlap({A}, {C}) wrong")
else:
  from pymtl3 import *
  from pymtl3.passes.sim.GenDAGPass import GenDAGPass
  class WR(Component):
    def construct(s):
      s.in_ = InPort(n); s.x = Wire(n); s.out = OutPort(D - C)
      @update
      def upA(): s.x[A:B] @= s.in_[A:B]
      @update
      def upB(): s.out @= s.x[C:D]
  top = WR(); top.elaborate(); GenDAGPass()(top)
  names = {(u.__name__, v.__name__) for u, v in top._dag.all_constraints}
  if (('upA', 'upB') in names) != inter or ('upB', 'upA') in names:
    reproduced(f"write x[{A}:{B}], read x[{C}:{D}]: constraints {sorted(names)}; a writer->reader constraint is {'required' if inter else 'not allowed'}")
'''


def _as_bool(r):
  if isinstance(r, core.SymBool): return r.b
  if isinstance(r, core.SymInt): return r.e != 0
  return z3.BoolVal(bool(r))


CYC_SRC = '''from pymtl3 import *
class CycTwo(Component):
  def construct(s):
    s.in_ = InPort(8); s.a = Wire(8); s.b = Wire(8)
    @update
    def upA(): s.a @= s.in_
    @update
    def upB(): s.b @= s.in_
    s.add_constraints( U(upA) < U(upB), U(upB) < U(upA) )
class CycThree(Component):
  def construct(s):
    s.in_ = InPort(8); s.a = Wire(8); s.b = Wire(8); s.c = Wire(8)
    @update
    def upA(): s.a @= s.in_
    @update
    def upB(): s.b @= s.in_
    @update
    def upC(): s.c @= s.in_
    s.add_constraints( U(upA) < U(upB), U(upB) < U(upC), U(upC) < U(upA) )
class CycTwoOut(Component):         # the cycle is value-less, but one member drives a signal read OUTSIDE the cycle
  def construct(s):
    s.in_ = InPort(8); s.a = Wire(8); s.b = Wire(8); s.out = OutPort(8)
    @update
    def upA(): s.a @= s.in_ + 1
    @update
    def upB(): s.b @= s.in_
    @update
    def upD(): s.out @= s.a + 1
    s.add_constraints( U(upA) < U(upB), U(upB) < U(upA) )
class CycTwoIn(Component):          # ... one member reads a signal written OUTSIDE the cycle
  def construct(s):
    s.in_ = InPort(8); s.a = Wire(8); s.b = Wire(8); s.pre = Wire(8)
    @update
    def upP(): s.pre @= s.in_ ^ 3
    @update
    def upA(): s.a @= s.pre
    @update
    def upB(): s.b @= s.in_
    s.add_constraints( U(upA) < U(upB), U(upB) < U(upA) )
class CycThreeInOut(Component):     # ... both, on a three-block cycle, with nets
  def construct(s):
    s.in_ = InPort(8); s.a = Wire(8); s.b = Wire(8); s.c = Wire(8); s.pre = Wire(8); s.out = OutPort(8); s.o2 = OutPort(8)
    @update
    def upP(): s.pre @= s.in_ ^ 3
    @update
    def upA(): s.a @= s.pre
    @update
    def upB(): s.b @= s.in_
    @update
    def upC(): s.c @= s.pre + 1
    @update
    def upD(): s.out @= s.b + s.c
    s.o2 //= s.a
    s.add_constraints( U(upA) < U(upB), U(upB) < U(upC), U(upC) < U(upA) )
class CycMixed(Component):          # explicit constraint against a value dependence: a cycle with only one value edge
  def construct(s):
    s.in_ = InPort(8); s.a = Wire(8); s.b = Wire(8)
    @update
    def upA(): s.a @= s.in_
    @update
    def upB(): s.b @= s.a
    @update
    def upC(): s.b2 = 0
    s.add_constraints( U(upB) < U(upC), U(upC) < U(upA) )
'''


def item_cyclic(it):
  """cyclic constraints that involve no value-carrying signal must be rejected by every scheduling pass"""
  cover.start()
  import warnings; warnings.filterwarnings('ignore')
  import importlib.util, os, tempfile
  from pymtl3.dsl.errors import UpblkCyclicError
  res = Result("explicit-cycles")
  d = tempfile.mkdtemp(prefix='cyc_', dir=os.environ.get('VERIF_SCRATCH') or None)
  fn = os.path.join(d, 'verif_cyc_mod.py'); open(fn, 'w').write(CYC_SRC)
  spec = importlib.util.spec_from_file_location('verif_cyc_mod', fn); mod = importlib.util.module_from_spec(spec)
  sys.modules['verif_cyc_mod'] = mod; spec.loader.exec_module(mod)
  from vlib.ffreplay import apply_group
  import pymtl3.passes.sim.SimpleSchedulePass as SSP
  SSP.dump_dag = lambda *a, **k: None        # the error path renders and OPENS a graphviz picture (xdg-open): I/O stub
  for cn in ('CycTwo', 'CycThree', 'CycTwoOut', 'CycTwoIn', 'CycThreeInOut'):
    for g in GROUP_NAMES:
      res['obligations'] += 1; res['states'] += 1
      try:
        top = getattr(mod, cn)(); apply_group(top, g)
        res['violations'].append(dict(key=f"explicit-cycle:{cn}:{g}", what=f"{cn}: group {g} schedules blocks that are constrained cyclically without any value signal",
                                      replay=REPLAY_CYC % dict(src=CYC_SRC, cn=cn, g=g)))
      except UpblkCyclicError:
        res['discharged'] += 1; res['distinct'].append(f"{cn}/{g}")
      except Exception as e:
        res['inconclusive'].append(f"{cn}/{g}: {type(e).__name__}: {e}")
  res['transitions'] = res['states']
  res['samples'].append("CycTwo: U(A)<U(B), U(B)<U(A) on two blocks that share no signal: every pass group must raise UpblkCyclicError")
  return res.r


REPLAY_CYC = '''
sys.path.insert(0, '/verif')
import importlib.util, os, tempfile
from pymtl3.dsl.errors import UpblkCyclicError
from vlib.ffreplay import apply_group
import pymtl3.passes.sim.SimpleSchedulePass as SSP
SSP.dump_dag = lambda *a, **k: None
d = tempfile.mkdtemp(); fn = os.path.join(d, 'cyc_mod.py'); open(fn, 'w').write(%(src)r)
spec = importlib.util.spec_from_file_location('cyc_mod', fn); mod = importlib.util.module_from_spec(spec); sys.modules['cyc_mod'] = mod; spec.loader.exec_module(mod)
try:
  top = getattr(mod, %(cn)r)(); apply_group(top, %(g)r)
  reproduced("cyclic explicit constraints were scheduled instead of rejected")
except UpblkCyclicError:
  pass
'''


REPLAY_METHOD = '''
sys.path.insert(0, '/verif')
import warnings; warnings.filterwarnings('ignore')
from corpus import method_designs as MD
import random
top = MD.build(%(name)r, %(sched)r, %(picks)r)
msg = MD.problems(%(name)r, MD.run_order(top))
if msg: reproduced("method-ordering design " + %(name)r + " under " + %(sched)r + " (shuffle outcomes %(picks)r): " + msg)
if %(picks)r is not None:      # the queue the shuffle sees follows set iteration over fresh objects: also let the library's own generator pick
  for seed in range(400):
    random.seed(seed)
    msg = MD.problems(%(name)r, MD.run_order(MD.build(%(name)r, 'simple')))
    if msg: reproduced("method-ordering design " + %(name)r + " under SimpleSchedulePass, random.seed(%%d): " %% seed + msg)
'''


def item_method(it):
  """explicit METHOD ordering constraints: the blocks calling constrained methods (directly or through method nets, also
  transitively through methods nobody calls) run in the constrained order in every tick -- under the three scheduling
  passes, the default pass group, and EVERY pick sequence of SimpleSchedulePass's Kahn loop (shuffle stub, fork per pick).
  Expected pairs: corpus/method_designs.NEED, written down by hand from the rule."""
  cover.start()
  import warnings; warnings.filterwarnings('ignore')
  import random as _random
  from corpus import method_designs as MD
  name = it['name']
  res = Result(f"method/{name}")
  sp.setup()

  def judge(orders, sched, picks):
    res['obligations'] += 1
    msg = MD.problems(name, orders)
    if msg is None: res['discharged'] += 1
    else: res['violations'].append(dict(key=f"method-order:{name}:{sched if picks is None else 'simple pick sequence'}", what=f"{res['name']} [{sched}]: {msg}",
                                        replay=REPLAY_METHOD % dict(name=name, sched=sched, picks=picks)))
  for sched in ('simple', 'dynamic', 'heutopo', 'default'):
    try:
      judge(MD.run_order(MD.build(name, sched)), sched, None)
    except Exception as e:
      res['obligations'] += 1
      res['violations'].append(dict(key=f"method-order:{name}:{sched} raises", what=f"{res['name']} [{sched}]: a legal design is rejected: {type(e).__name__}: {str(e)[:200]}",
                                    replay=REPLAY_METHOD % dict(name=name, sched=sched, picks=None)))
  orig = _random.shuffle
  cnt = [0]; picks = []

  def stub(q):
    if len(q) <= 1: return
    ch, _v = fresh(f'pick{cnt[0]}', 4); cnt[0] += 1
    core.assume(ch < len(q))
    i = ch.__index__()                       # fork over every choice
    picks.append(i)
    q.append(q.pop(i))

  from pymtl3.passes.sim.SimpleSchedulePass import SimpleSchedulePass
  from pymtl3.passes.BasePass import PassMetadata
  top = MD.build(name, 'simple')          # elaborated and scheduled once; only the Kahn loop is re-run per path (as in the dep items)

  def run():
    cnt[0] = 0; del picks[:]
    saved = top._sched
    top._sched = PassMetadata()
    _random.shuffle = stub
    try:
      SimpleSchedulePass().schedule_intra_cycle(top)
      sched = list(top._sched.update_schedule)
    finally:
      _random.shuffle = orig; top._sched = saved
    orders = []
    for _ in range(2):
      del top.log[:]
      for b in sched: b()
      orders.append(list(top.log))
    return orders, list(picks)
  ex = Explorer(max_paths=6000)
  seen = set()
  for pc, out, exc in ex.paths(run):
    if isinstance(exc, core.PathPruned): continue
    res['states'] += 1
    if exc is not None:
      res['inconclusive'].append(f"scheduler raised under the shuffle stub: {type(exc).__name__}: {exc}"); break
    orders, pk = out
    t = tuple(orders[0])
    if t in seen: continue
    seen.add(t)
    judge(orders, 'simple', pk)
  res['transitions'] = res['states']
  res['note'] = f"{len(MD.BLOCKS[name])} blocks, {len(MD.NEED[name])} ordered pairs, {len(seen)} distinct Kahn orders over {res['states']} pick sequences"
  res['twins_expected'] = 1; res['twins_sat'] = 1
  res['distinct'].append(res['name'])
  res['samples'].append({'design': name, 'ordered_pairs': MD.NEED[name], 'kahn_orders': sorted(seen)[:4]})
  return res.r


def dispatch(it):
  return {'dep': item_dep, 'overlap': item_overlap, 'cyclic': item_cyclic, 'method': item_method}[it['kind']](it)


def main():
  tier = sys.argv[1] if len(sys.argv) > 1 else 'quick'
  chk = Check('C02', tier)
  from checks.c01 import corpus
  shapes, hand, ff, std = corpus('thorough', 0)
  from corpus import sched_designs as _SD
  hand = hand + sorted(_SD.INVERTING)
  if tier == 'quick': shapes = shapes[chk.seed % 2::2]
  items = [dict(kind='cyclic', name='cyclic')]
  for n in ([8, 64, 1023] if tier == 'thorough' else [8, 64]): items.append(dict(kind='overlap', name=f'overlap{n}', n=n))
  small = ['stdlib:NormalQueueRTL1', 'x:NestedStruct', 'x:DescLoop', 'ff:Swap', 'ff:StructReg', 'ff:Forwarded', 'ff:ParentWritesChild', 'ff:CondMulti']
  for n in hand + small + shapes: items.append(dict(kind='dep', name=n))
  from corpus import method_designs as _MD
  for n in _MD.DESIGNS: items.append(dict(kind='method', name=n))
  for it, r in pmap(dispatch, items, item_timeout=900 if tier == 'quick' else 3600):
    chk.absorb(it, r)
  chk.bounds = dict(designs=len(items) - 3, method_ordering_designs=list(_MD.DESIGNS), kahn_enumeration_up_to_blocks=6, per_bit_dependence_up_to_state_bits=260,
                    slice_bounds='all 0 <= lo < hi <= n for n in {8, 64' + (', 1023' if tier == 'thorough' else '') + '}')
  chk.outside = ['WrapGreenletPass / OpenLoopCLPass orders (greenlet switching is not a function of a state the summaries see)',
                 'method constraints outside the nine method-ordering designs (non-blocking interfaces with rdy methods are exercised through the CL queues of C17)', 'designs whose state is wider than 260 bits (C01 covers them through result equality)']
  chk.assumptions = ['random.shuffle replaced by a nondeterministic stub (every pick explored by forking)', 'semantic dependence under-approximates the syntactic read/write sets']
  chk.finish(rule="per design: dependence queries (bit can change / bit can influence), then one obligation per executed order (5 pass groups + every distinct Kahn pick sequence): "
                  "each block exactly once, every semantic writer before its reader, explicit constraints honoured; method-ordering designs: the executed order of every tick against a hand-written table of ordered pairs under three scheduling passes, the default group and every Kahn pick sequence; plus constraint generation for all slice bounds and rejection of value-less cycles")


if __name__ == '__main__':
  main()
