"""C10 -- type-checker widths are the real widths; accepted code has no width errors.

 literal : both copies of _get_nbits_from_value run on a symbolic integer (libm behind a contract-constrained stub);
           the result must be max(1, bit_length(v)).
 blocks  : for every update block the real BehavioralRTLIRTypeCheckPass accepts, the block is re-compiled with every
           typed expression node wrapped, and executed under symx from a fully symbolic state: on every feasible path
           the runtime width of each Bits-valued node equals the static width, and no width-mismatch ValueError can be
           raised (no ValueError at all if the block has no explicit BitsN cast / shift / trunc).
 converse: generated blocks with explicitly sized operands of different widths must be rejected (if the checker accepts
           one, the same obligation fails because simulation raises).
"""
import sys
import z3

from vlib import Check, pmap, cover, prove
from vlib.pathcheck import Result
from vlib import c10instr as CI
from symx import core, pymtl as sp
from symx.core import Explorer, fresh, lift
from symx.symsim import SymSim

REPLAY_LIT = '''
from pymtl3.passes.rtlir.rtype.RTLIRDataType import _get_nbits_from_value as f1
from pymtl3.passes.rtlir.behavioral.BehavioralRTLIRTypeCheckL1Pass import BehavioralRTLIRTypeCheckVisitorL1 as V
v = %(v)d
exp = max(1, v.bit_length())
got = (f1(v), V._get_nbits_from_value(None, v))
if got[%(which)d] != exp: reproduced(f"_get_nbits_from_value({v}) [= 2^{v.bit_length()-1} + {v - (1 << (v.bit_length()-1))}] = {got[%(which)d]}, the least width that holds it is {exp} (copy %(which)d)")
'''
REPLAY_BLK = '''
sys.path.insert(0, '/verif')
import warnings; warnings.filterwarnings('ignore')
from vlib import c10instr as CI
from vlib.ffreplay import _cells
from corpus import tv_designs
from pymtl3 import DefaultPassGroup
from pymtl3.datatypes import Bits
name, comp, blkname, state, what, key = %(name)r, %(comp)r, %(blk)r, %(state)r, %(what)r, %(key)r
top = tv_designs.get(name)(); top.elaborate()
m = eval(comp, {'s': top})
try:
  st = CI.static_types(m)
except Exception as e:
  not_reproduced(f"the checker rejects the block in this process: {type(e).__name__}")
top2 = tv_designs.get(name)(); top2.elaborate(); top2.apply(DefaultPassGroup())
m2 = eval(comp, {'s': top2})
cells = _cells(top2)
for n, v in state.items():
  if n in cells: cells[n]._uint = v
blk = [b for b in m2.get_update_block_order()] if False else None
blks = {b.__name__: b for b in m2._dsl.upblks}
b = blks[blkname]
tbl = [t for bb, t in st.items() if bb.__name__ == blkname][0]
obs = {}
def rec(k, v):
  if isinstance(v, Bits): obs.setdefault(k, set()).add(v.nbits)
  return v
try:
  f = CI.instrument(m2, b, set(tbl), rec)
  f()
except ValueError as e:
  if what == 'raises': reproduced(f"{name} block {blkname}: accepted by the type checker, but simulating it from {state} raises ValueError: {str(e).splitlines()[0]}")
  raise
if what == 'width':
  for k, ws in obs.items():
    if tuple(k) == tuple(key) and ws != {tbl[k][0]}: reproduced(f"{name} block {blkname}: node {k} has static width {tbl[k][0]} but runtime width(s) {sorted(ws)}")
'''


class _StubLog:
  def __init__(s, c): s.c = c
  def __ceil__(s): return s.c


def item_literal(it):
  cover.start()
  import math as _math
  sp.setup()
  import pymtl3.passes.rtlir.rtype.RTLIRDataType as RD
  import pymtl3.passes.rtlir.behavioral.BehavioralRTLIRTypeCheckL1Pass as L1
  B = it['bits']
  which = it['which']
  res = Result(f"literal/copy{which}/v<2^{B}")
  sv, vv = fresh('v', B)
  hit = []

  def log2(x):
    if not core.is_sym(x): return _math.log2(x)
    hit.append(1)
    # contract of ceil(log2(float(x))): exact int->float conversion below 2^53, log2 exact on powers of two and within 1 ulp
    # otherwise, so for k = bit_length(x) - 1:  x == 2^k -> k;  k >= 53 and x < 2^k + 2^(k-52) -> k or k+1;  else k+1
    c, cv = fresh('stub_ceil', 12)
    k = lift(x).bit_length() - 1
    ispow = (x & (x - 1)) == 0
    if ispow: core.assume(c == k)
    else:
      big = k >= 53
      if big:
        kk = k.__index__()
        if x < (1 << kk) + (1 << (kk - 52)): core.assume((c == kk) | (c == kk + 1))
        else: core.assume(c == kk + 1)
      else:
        core.assume(c == k + 1)
    return _StubLog(c)
  def ceil(x): return x.__ceil__() if isinstance(x, _StubLog) else _math.ceil(x)

  _l2, _ce = log2, ceil

  class StubMath:
    log2 = staticmethod(_l2); ceil = staticmethod(_ce)
    def __getattr__(s, n): return getattr(_math, n)
  saved = (RD.__dict__.get('log2'), RD.__dict__.get('ceil'), L1.__dict__.get('math'))
  RD.log2, RD.ceil, L1.math = log2, ceil, StubMath()
  core.install(RD.__dict__); core.install(L1.__dict__)
  try:
    f = (lambda: RD._get_nbits_from_value(sv)) if which == 0 else (lambda: L1.BehavioralRTLIRTypeCheckVisitorL1._get_nbits_from_value(None, sv))
    ex = Explorer(max_paths=3000)
    for pc, out, exc in ex.paths(f):
      if isinstance(exc, core.PathPruned): continue
      res['states'] += 1; res['transitions'] += len(pc)
      if exc is not None:
        res['inconclusive'].append(f"raised {type(exc).__name__}: {exc}"); continue
      r = lift(out)
      bl = sv.bit_length()
      W = 16
      goal = core.ubv(r, W) == z3.If(core.ubv(bl, W) == 0, z3.BitVecVal(1, W), core.ubv(bl, W))
      blocked = []
      for _ in range(40):
        res['obligations'] += 1
        v, m = prove(pc + blocked, goal)
        if v == 'unsat': res['discharged'] += 1; break
        if v != 'sat': res['inconclusive'].append(f"solver unknown {m}"); break
        val = m.eval(vv, model_completion=True).as_long()
        res['violations'].append(dict(key=f"_get_nbits_from_value copy {which}", speculative=bool(hit),
                                      what=f"literal width of {val} is not max(1, bit_length)", replay=REPLAY_LIT % dict(v=val, which=which)))
        blocked.append(vv != val)
    res['note'] = 'libm stub reached' if hit else 'integer-only implementation'
  finally:
    RD.log2, RD.ceil, L1.math = saved
  res['samples'].append(f"{res['name']}: {res['states']} paths; {res['note']}")
  return res.r


def item_design(it):
  cover.start()
  import warnings; warnings.filterwarnings('ignore')
  from corpus import tv_designs
  from pymtl3.datatypes import Bits as _B
  name = it['name']
  res = Result(f"blocks/{name}")
  kname = tv_designs.stable_key(name)
  try:
    top = tv_designs.get(name)()
    top.elaborate()
  except Exception as e:
    res['note'] = f"not elaborable: {type(e).__name__}"; return res.r
  comps = sorted(top.get_all_components(), key=repr)
  accepted = {}
  nrej = 0
  for m in comps:
    if not m._dsl.upblks: continue
    try:
      accepted[repr(m)] = CI.static_types(m)
    except Exception as e:
      nrej += 1
  if not accepted:
    res['note'] = f"rejected by the type checker ({nrej} component(s))" if nrej else "no update blocks"
    res['verdict'] = 'rejected'
    return res.r
  try:
    sim = SymSim(tv_designs.get(name)(), group='default', merge=False)
  except core.Unsupported: raise
  except Exception as e:
    res['note'] = f"type-checks but is not simulatable: {type(e).__name__}: {str(e)[:80]}"; return res.r
  top2 = sim.top
  Bits = sim.Bits
  nblk = 0
  nlambda = [0]
  for comp, tbls in accepted.items():
    m2 = eval(comp, {'s': top2})
    blks = {b.__name__: b for b in m2._dsl.upblks}
    for blk, tbl in tbls.items():
      b2 = blks.get(blk.__name__)
      if b2 is None: continue
      obs = []
      def rec(k, v):
        if isinstance(v, Bits): obs.append((k, v.nbits))
        return v
      try:
        f = CI.instrument(m2, b2, set(tbl), rec)
      except Exception as e:
        # lambda / connection-generated blocks carry synthesised ASTs without usable source positions: run the real block
        # un-instrumented (the no-width-error clause still applies; node widths are not observed)
        f = b2; nlambda[0] += 1
      nblk += 1
      src = CI.block_source(m2, b2)
      lenient = CI.uses_width_changing_constructs(src)
      probe = {}
      def run():
        del obs[:]
        v = sim.symbolic_state(); probe.update(v)
        f()
        return list(obs)
      ex = Explorer(max_paths=it.get('max_paths', 600), max_decisions=3000)
      try:
        for pc, out, exc in ex.paths(run):
          res['states'] += 1; res['transitions'] += len(pc); res['obligations'] += 1
          bad = None
          if exc is not None:
            msg = str(exc)
            if isinstance(exc, ValueError) and (any(mk in msg for mk in CI.WIDTH_MISMATCH_MARKERS) or not lenient):
              bad = ('raises', None, f"raises ValueError: {msg.splitlines()[0][:100]}")
            # other exceptions (IndexError of a data-dependent index, ...) are not width errors
          else:
            for k, w in out:
              if w != tbl[k][0]: bad = ('width', k, f"node {k} ({tbl[k][2]}) static width {tbl[k][0]} != runtime width {w}"); break
          if bad is None:
            res['discharged'] += 1; continue
          v, mdl = prove(pc, z3.BoolVal(False))
          state = {n: mdl.eval(x, model_completion=True).as_long() for n, x in probe.items()} if v == 'sat' else {}
          res['violations'].append(dict(key=f"typecheck:{kname}:{blk.__name__}:{bad[0]}", what=f"{res['name']} [{kname}] block {blk.__name__}: accepted by the checker but {bad[2]}",
                                        replay=REPLAY_BLK % dict(name=name, comp=comp, blk=blk.__name__, state=state, what=bad[0], key=bad[1])))
          break
      except core.BudgetExceeded as e:
        res['note'] = f"block {blk.__name__}: path budget exceeded, partially explored"
  res['distinct'].append(res['name'])
  res['note'] = res.r.get('note') or f"{nblk} accepted block(s) explored ({nlambda[0]} un-instrumented lambda blocks)"
  res['twins_expected'] = 0
  res['samples'].append({'design': name, 'what': kname, 'accepted_blocks': nblk})
  return res.r


def dispatch(it):
  return {'literal': item_literal, 'design': item_design}[it['kind']](it)


def main():
  tier = sys.argv[1] if len(sys.argv) > 1 else 'quick'
  chk = Check('C10', tier)
  from corpus import tv_designs, exprgen, mismatchgen, tv_extra
  from checks_designs import FF_NAMES
  names = ['case:' + n for n in tv_designs.case_names()]
  names += sorted(set(tv_designs.stdlib_names()) - {'ex:ProcRTL'})
  names += ['ff:' + n for n in FF_NAMES if not n.startswith('stdlib:')]
  names += mismatchgen.names()
  gen = exprgen.names()
  if tier == 'quick': gen = gen[chk.seed % 2::2]
  names += gen
  if tier == 'thorough': names.append('ex:ProcRTL')
  items = [dict(kind='literal', name=f'literal{w}', bits=70, which=w) for w in (0, 1)]
  items += [dict(kind='design', name=n) for n in names]
  nrej = nacc = 0
  for it, r in pmap(dispatch, items, item_timeout=600 if tier == 'quick' else 3000):
    chk.absorb(it, r)
    if r.get('verdict') == 'rejected': nrej += 1
    elif it['kind'] == 'design' and 'error' not in r: nacc += 1
  chk.extra['designs_accepted'] = nacc; chk.extra['designs_rejected_by_checker'] = nrej
  chk.bounds = dict(literal_bits=70, designs=len(names), state='every cell symbolic per block (blocks explored one at a time, path mode)', block_path_budget=600)
  chk.outside = ['integer-valued non-literal sub-expressions (loop-variable arithmetic): Python ints have no width', 'negative free variables',
                 'TypeCheck L3-L5 only through the corpus designs that use them', 'lambda / connection-generated blocks (not instrumented)']
  chk.assumptions = ['libm log2/ceil behind a stub constrained by the stated accuracy contract (only reached if the implementation uses floats)']
  chk.finish(rule="literal: one obligation per path of each _get_nbits_from_value copy for all v < 2^70; blocks: one obligation per feasible path of every accepted block "
                  "(static width == runtime width at every Bits-valued node, no width ValueError); generated explicit-mismatch blocks must not be accepted")


if __name__ == '__main__':
  main()
