"""C16 -- waveform dumps replay the simulation exactly (bounded symbolic check).

The real VcdGenerationPass and PrintTextWavePass run inside the real DefaultPassGroup on small designs whose inputs are
symbolic in every cycle (from the power-on state, k cycles).  Bits.to_vcd_str / Bits.bin -- the two places where a
payload is rendered into text -- return a SymStr for a symbolic payload: it compares by VALUE (forking on equality of
the terms, which is how "only changed signals are re-dumped" is explored on both sides) and prints as a marker.  The
file the real pass wrote is then read by an independent VCD reader (specs/vcd_spec.py) and, per path, z3 proves for
every signal of every component and every cycle: value in the dump == value the signal holds after the cycle's
combinational evaluation, before the edge (taken from SymSim's own cell map, not from anything the pass computed).
Also: declared widths, one $var per top-level signal, signals of one net share a symbol only if they are equal, the
clock toggles at 100c / 100c+50, time stamps increase, and the text-wave record holds the same per-cycle values.
"""
import os
import sys
import z3

from vlib import Check, pmap, cover, prove
from vlib.pathcheck import Result
from symx import core, pymtl as sp
from symx.core import Explorer, SymBool
from symx.symsim import SymSim
from specs import vcd_spec as VS

REPLAY = '''
sys.path.insert(0, '/verif')
import warnings; warnings.filterwarnings('ignore')
from checks.c16 import concrete_run
# the order in which the pass lays out the nets follows set iteration over freshly allocated objects: a counterexample can
# depend on it, so the same inputs are dumped several times from fresh constructions (different addresses, different orders)
junk = []
for attempt in range(12):
  msg = concrete_run(%(name)r, %(inputs)r, %(pre)r)
  if msg: reproduced(msg)
  junk.append([object() for _ in range(37 * (attempt + 1))])
'''


class SymStr:
  """text of a symbolic payload: compares by value, prints as a marker the VCD reader understands"""
  reg = []

  def __init__(s, kind, term, nbits):
    s.kind, s.term, s.nbits = kind, term, nbits
    SymStr.reg.append(s); s.id = len(SymStr.reg) - 1

  def _plain(s, o):
    """value of a plain string in the same format, or None"""
    if s.kind == 'vcd':
      body = o[1:-1] if (s.nbits > 1 and o.startswith('b') and o.endswith(' ')) else (o if s.nbits == 1 else None)
    else:
      body = o[2:] if o.startswith('0b') else None
    if body is None or len(body) != s.nbits or any(c not in '01' for c in body): return None
    return int(body, 2)

  def __eq__(s, o):
    if isinstance(o, SymStr):
      if (o.kind, o.nbits) != (s.kind, s.nbits): return False
      return bool(SymBool(s.term == o.term))
    if isinstance(o, str):
      v = s._plain(o)
      return False if v is None else bool(SymBool(s.term == z3.BitVecVal(v, s.nbits)))
    return NotImplemented

  def __ne__(s, o):
    r = s.__eq__(o)
    return r if r is NotImplemented else not r

  __hash__ = None

  def __str__(s):
    m = f"\x01{s.id}\x02"
    if s.kind == 'vcd': return m if s.nbits == 1 else f"b{m} "
    return f"0b{m}"
  __format__ = lambda s, spec: str(s)
  __repr__ = __str__


def install_text_standins(Bits):
  if getattr(Bits, '_c16_standins', False): return
  Bits._c16_standins = True
  o_vcd, o_bin = Bits.to_vcd_str, Bits.bin
  def to_vcd_str(self):
    if core.is_sym(self._uint): return SymStr('vcd', core.ubv(self._uint, self._nbits), self._nbits)
    return o_vcd(self)
  def bin_(self):
    if core.is_sym(self._uint): return SymStr('bin', core.ubv(self._uint, self._nbits), self._nbits)
    return o_bin(self)
  Bits.to_vcd_str = to_vcd_str; Bits.bin = bin_


def top_level_signals(top):
  """{name: nbits} of every signal that is not a slice/field of another one (plain pymtl3 API, not the dump pass)"""
  return {repr(x): x._dsl.Type.nbits for x in top._dsl.all_signals if x.is_top_level_signal()}


def check_dump(text, sigs, snaps, init_snap, eq, ncycles, textwave=None, clk_members=('s.clk',), same_net=None):
  """compare the dump with the snapshots.  eq(a, b, what) must raise/return a message when the two values can differ.
  snaps[c][name] = value of the signal in cycle c (int or z3 term).  returns the first problem or None"""
  try:
    vars_, initial, changes = VS.parse(text)
    init, per, hist = VS.waveform(vars_, initial, changes, ncycles)
  except VS.VcdError as e:
    return f"the dump is not well-formed: {e}"
  names = {}
  for scope, name, width, sym in vars_:
    try: full = VS.signal_name(scope, name)
    except VS.VcdError as e: return str(e)
    if full in names: return f"signal {full} is declared twice"
    names[full] = (width, sym)
  missing = sorted(set(sigs) - set(names)); extra = sorted(set(names) - set(sigs))
  if missing: return f"signals missing from the dump: {missing[:4]}"
  if extra: return f"the dump declares signals the design does not have: {extra[:4]}"
  for n, (width, sym) in sorted(names.items()):
    if width != sigs[n]: return f"{n} is declared {width} bits wide, the signal has {sigs[n]}"
  if same_net is not None:
    by_sym = {}
    for n, (width, sym) in sorted(names.items()):
      if sym in by_sym and not same_net(n, by_sym[sym]): return f"{n} and {by_sym[sym]} share the identifier {sym!r} although they are different nets"
      by_sym.setdefault(sym, n)
  clk = names['s.clk'][1]
  want = [(50 * i, 1 - (i % 2)) for i in range(2 * ncycles + 1)]
  got = [(t, v[1]) for t, v in hist.get(clk, []) if v[0] == 'const']
  if got != want or len(got) != len(hist.get(clk, [])): return f"the clock does not toggle once per cycle: changes {hist.get(clk, [])[:8]}, expected {want[:8]}"
  for n, (width, sym) in sorted(names.items()):
    if n in clk_members:            # the clock net is drawn toggling although the simulator holds it at 0 (second clause of the property)
      if sym != clk: return f"{n} is on the clock net but has its own symbol"
      continue
    if sym == clk: return f"{n} shares the clock's symbol without being connected to the clock"
    if sym not in init: return f"{n} has no initial value in the dump"
    # (the initial section prints the type's default; a constant-tied wire holds its constant from the start and is
    #  re-dumped at #0, so what a reader sees at every cycle -- compared below -- is right; only presence is demanded here)
    for c in range(ncycles):
      m = eq(per[c][sym], snaps[c][n], width, f"{n} in cycle {c}")
      if m: return m
  if textwave is not None:
    want_names = sorted(n for n in sigs if not n.endswith('.clk') and (n == 's.reset' or not n.endswith('.reset')))
    if sorted(textwave) != want_names: return f"the text-wave record holds {sorted(textwave)[:6]}, the design's signals are {want_names[:6]}"
    for n in want_names:
      if len(textwave[n]) != ncycles: return f"text-wave record of {n} has {len(textwave[n])} entries after {ncycles} cycles"
      for c in range(ncycles):
        m = eq(textwave[n][c], snaps[c][n], sigs[n], f"text-wave value of {n} in cycle {c}")
        if m: return m
  return None


def _design(name):
  from corpus import vcd_designs as VD
  return VD.DESIGNS[name]()


def _inputs_of(top, name=None, reset=False):
  from pymtl3.dsl import InPort
  from corpus import vcd_designs as VD
  only = VD.SYMBOLIC_PORTS.get(name or type(top).__name__)
  return sorted(p for p in _all_inputs(top) if only is None or p[0] in only) + ([('s.reset', 1)] if reset else [])


def _all_inputs(top):
  from pymtl3.dsl import InPort
  return sorted((repr(x), x._dsl.Type.nbits) for x in top._dsl.all_signals
                if isinstance(x, InPort) and x.is_top_level_signal() and x.get_host_component() is top and repr(x) not in ('s.clk', 's.reset'))


def concrete_run(name, inputs, pre=None):
  """replay on the pristine code: inputs = [ {port name: int} per cycle ]; pre='sim_reset': the real sim_reset() runs
  first and the per-cycle values are recorded at the edge by a function on the pass's own hook list"""
  from pymtl3 import DefaultPassGroup
  from pymtl3.passes.tracing.PrintTextWavePass import PrintTextWavePass
  from pymtl3.passes.backends.verilog.tbgen.VerilogTBGenPass import VerilogTBGenPass
  top = _design(name); top.elaborate()
  fn = os.path.join(os.environ.get('VERIF_SCRATCH') or '.', f"c16_{name}")
  hook_snaps = []
  sigs = top_level_signals(top)
  val = lambda n: int(eval(n, {'s': top}).to_bits())
  def dump_snap(): hook_snaps.append({n: val(n) for n in sigs})
  if pre: top.set_metadata(VerilogTBGenPass.vtbgen_hooks, [dump_snap])
  top.apply(DefaultPassGroup(vcdwave=fn, textwave=True))
  init_snap = {n: val(n) for n in sigs}
  snaps = []
  if pre == 'sim_reset': top.sim_reset()
  for cyc in inputs:
    for port, v in cyc.items():
      obj = eval(port, {'s': top})              # after lock_in_simulation the attribute IS the value object
      T = type(obj)
      obj.__imatmul__(T.from_bits(mk_bits_of(T.nbits)(v)) if is_struct(T) else v)
    settle(top)
    snaps.append({n: val(n) for n in sigs})
    top.sim_tick()
  if pre:
    if hook_snaps[len(hook_snaps) - len(snaps):] != snaps and top_is_pure_rtl(top): return f"design {name}: the values at the edge differ from the values after the combinational evaluation"
    snaps = hook_snaps
  text = open(fn + '.vcd').read()
  tw = {n: list(v) for n, v in top.get_metadata(PrintTextWavePass.textwave_dict).items()}

  def eq(a, b, width, what):
    if isinstance(a, str):                # text-wave entry '0b0101'
      if not a.startswith('0b') or len(a) != width + 2: return f"{what}: text {a!r} is not a {width}-bit binary number"
      av = int(a[2:], 2)
    else:
      if a[0] != 'const': return f"{what}: unreadable value {a}"
      if width > 1 and a[2] != width: return f"{what}: {a[2]} digits dumped for a {width}-bit signal"
      av = a[1]
    if av != b: return f"design {name}, inputs {inputs}: {what} is {av:#x} in the dump, the simulator held {b:#x}"
  clk_obj = eval('s.clk', {'s': top})
  members = {n for n in sigs if eval(n, {'s': top}) is clk_obj}
  return check_dump(text, sigs, snaps, init_snap, eq, len(snaps), tw, members, lambda a, b: eval(a, {'s': top}) is eval(b, {'s': top}))


def top_is_pure_rtl(top):
  try: top.sim_eval_combinational(); return True
  except (NotImplementedError, NameError): return False


def settle(top):
  """bring the design to the state the dump will see: a pure RTL tick starts with the combinational pass; a design with
  method ports / update_once blocks has none (its tick dumps first), so the state is taken as it is"""
  try: top.sim_eval_combinational()
  except NotImplementedError: pass
  except NameError: pass          # the error path of sim_eval_combinational for non-RTL designs refers to an undefined name


def is_struct(T):
  from pymtl3.datatypes import is_bitstruct_class
  return is_bitstruct_class(T)


def mk_bits_of(n):
  from pymtl3.datatypes import mk_bits
  return mk_bits(n)


class MemFile:
  """stand-in for the file object the dump pass opens: the text stays in memory, so that every forked path keeps its own
  copy (a real file is shared between forked processes)"""
  files = {}

  def __init__(s, name): s.name = name; s.parts = []; MemFile.files[name] = s
  def write(s, x): s.parts.append(str(x))
  def flush(s): pass
  def close(s): pass
  def text(s): return ''.join(s.parts)


def item(it):
  cover.start()
  import warnings; warnings.filterwarnings('ignore')
  from symx.forkx import ForkExplorer
  from pymtl3 import DefaultPassGroup
  from pymtl3.passes.tracing.PrintTextWavePass import PrintTextWavePass
  import pymtl3.passes.tracing.VcdGenerationPass as _v   # noqa (the package attribute of this name is the class)
  VGP = sys.modules['pymtl3.passes.tracing.VcdGenerationPass']
  name, K = it['name'], it['K']
  res = Result(f"vcd/{name}/k={K}" + ("/reset symbolic" if it.get('reset') == 'sym' else '') + (f"/after {it['pre']}()" if it.get('pre') else ''))
  Bits = sp.setup()
  install_text_standins(Bits)
  VGP.open = lambda fn, mode='r': MemFile(fn)
  probe_top = _design(name); probe_top.elaborate()
  PRE = it.get('pre')
  from pymtl3.passes.backends.verilog.tbgen.VerilogTBGenPass import VerilogTBGenPass
  RST = it.get('reset') == 'sym'
  ivars = {(c, port): z3.BitVec(f"{port}@{c}", w) for c in range(K) for port, w in _inputs_of(probe_top, reset=RST)}

  def body():
    SymStr.reg = []
    top = _design(name)
    fn = f"c16_{name}"
    hook_snaps = []; holder = {}
    def dump_snap(): hook_snaps.append({n: holder['sim'].sig_bv(n) for n in holder['sigs']})
    def group(t):
      t.elaborate()
      if PRE: t.set_metadata(VerilogTBGenPass.vtbgen_hooks, [dump_snap])
      t.apply(DefaultPassGroup(vcdwave=fn, textwave=True))
    sim = SymSim(top, group=group, nowrap=('dump_vcd', 'dump_wav', 'dump_snap'))
    sigs = top_level_signals(top)
    holder['sim'] = sim; holder['sigs'] = sigs
    val = lambda n: sim.sig_bv(n)
    init_snap = {n: val(n) for n in sigs}
    snaps = []
    if PRE == 'sim_reset': top.sim_reset()
    for c in range(K):
      for port, w in _inputs_of(top, reset=RST): sim.drive(port, ivars[(c, port)])
      settle(top)
      snaps.append({n: val(n) for n in sigs})
      top.sim_tick()
    if PRE: snaps = hook_snaps
    text = MemFile.files[fn + '.vcd'].text()
    tw = {n: list(v) for n, v in top.get_metadata(PrintTextWavePass.textwave_dict).items()}
    members = {n for n in sigs if sim.sig_value[n] is sim.sig_value['s.clk']}
    same = {n: id(sim.sig_value[n]) for n in sigs}
    return text, sigs, snaps, init_snap, tw, list(SymStr.reg), members, same

  def leaf(pc, out, exc):
    rec = dict(obligations=1, discharged=0, violations=[], inconclusive=[], decisions=len(pc))
    def model_inputs(extra=()):
      sv = z3.Solver(); sv.add(*pc, *extra)
      if sv.check() != z3.sat: return None
      m = sv.model()
      return [{port: m.eval(ivars[(c, port)], model_completion=True).as_long() for (c2, port) in sorted(ivars) if c2 == c} for c in range(K)]
    if exc is not None:
      rec['violations'].append(dict(key=f"vcd:{name}:raises {type(exc).__name__}", what=f"{res['name']}: simulation with waveform dumping raised {type(exc).__name__}: {str(exc)[:200]}",
                                    replay=REPLAY % dict(name=name, inputs=model_inputs() or [], pre=PRE)))
      return rec
    text, sigs, snaps, init_snap, tw, reg, members, same = out
    bad = []

    def term_of(a, width):
      if isinstance(a, SymStr): return a.term if a.nbits == width else None
      if isinstance(a, str):
        if not a.startswith('0b') or len(a) != width + 2: return None
        return z3.BitVecVal(int(a[2:], 2), width)
      if a[0] == 'sym':
        st = reg[a[1]]
        return st.term if st.nbits == width else None
      if width > 1 and a[2] != width: return None
      return z3.BitVecVal(a[1], width)

    def eq(a, b, width, what):
      rec['obligations'] += 1
      t = term_of(a, width)
      if t is None:
        bad.append((what + ": wrong number of digits", ())); return what
      b = b if z3.is_expr(b) else z3.BitVecVal(b, width)
      g = z3.simplify(t == b)
      if z3.is_true(g):                      # syntactically the same value: nothing to ask the solver
        rec['discharged'] += 1; return None
      v, m = prove(pc, g)
      if v == 'unsat': rec['discharged'] += 1; return None
      if v == 'sat': bad.append((what + " differs from the value the simulator held", (t != b,))); return what
      rec['inconclusive'].append(f"{what}: solver unknown"); return None
    msg = check_dump(text, sigs, snaps, init_snap, eq, len(snaps), tw, members, lambda a, b: same[a] == same[b])
    if msg is None: rec['discharged'] += 1
    else:
      extra = bad[-1][1] if bad else ()
      rec['violations'].append(dict(key=f"vcd:{name}:{(bad[-1][0] if bad else msg).split(' in cycle')[0][:70]}", what=f"{res['name']}: {bad[-1][0] if bad else msg}",
                                    replay=REPLAY % dict(name=name, inputs=model_inputs(extra) or [], pre=PRE)))
    return rec

  fx = ForkExplorer(base_pc=[], leaf=leaf, max_paths=it.get('max_paths', 20000))
  recs = fx.run(body)
  for r in recs:
    if 'error' in r: res['inconclusive'].append(r['error']); continue
    res['states'] += 1; res['transitions'] += r['decisions']
    res['obligations'] += r['obligations']; res['discharged'] += r['discharged']
    res['inconclusive'] += r['inconclusive']
    if r['violations'] and len(res['violations']) < 2: res['violations'] += r['violations']
  res['distinct'] = [f"{res['name']}#{i}" for i in range(res['states'])]
  res['stats'] = {'solver_checks': sum(r.get('_stats', {}).get('solver_checks', 0) for r in recs),
                  'solver_s': round(sum(r.get('_stats', {}).get('solver_s', 0) for r in recs), 3), 'paths': len(recs)}
  res['twins_expected'] = 1
  res['twins_sat'] = 1 if res['states'] > 1 else 0          # both "changed" and "unchanged" sides of some re-dump test were feasible
  res['note'] = f"{res['states']} paths (which nets were re-dumped in which cycle)"
  res['samples'].append(f"{res['name']}: {res['note']}")
  return res.r


REPLAY_RENDER = '''
sys.path.insert(0, '/verif')
from checks.c16 import render_problem
msg = render_problem(%(n)d, %(v)d)
if msg: reproduced(msg)
'''


def render_problem(n, v):
  """the two rendering methods on one concrete value, against digits produced bit by bit"""
  from pymtl3.datatypes import Bits
  digits = ''.join('1' if (v >> i) & 1 else '0' for i in reversed(range(n)))
  x = Bits(n, v)
  want_vcd = digits if n == 1 else f"b{digits} "
  if x.to_vcd_str() != want_vcd: return f"Bits{n}({v:#x}).to_vcd_str() = {x.to_vcd_str()!r}, the {n} binary digits are {want_vcd!r}"
  if x.bin() != '0b' + digits: return f"Bits{n}({v:#x}).bin() = {x.bin()!r}, expected {'0b' + digits!r}"
  return None


def item_render(it):
  """the digit rendering itself is a C-level formatting of the payload (no symbolic value survives it): finite table --
  every value of every width up to 6 bits, and boundary / alternating patterns at wider widths; plus one concrete
  end-to-end dump per design with real digits"""
  cover.start()
  import warnings; warnings.filterwarnings('ignore')
  res = Result("vcd/rendering")
  cases = [(n, v) for n in range(1, 7) for v in range(1 << n)]
  for n in (8, 31, 32, 33, 64, 65, 255, 1023):
    M = (1 << n) - 1
    cases += [(n, v & M) for v in (0, 1, M, M >> 1, (M >> 1) + 1, 0x5555555555555555555555 & M, int('10' * 600, 2) & M, 1 << (n // 2))]
  for n, v in cases:
    res['obligations'] += 1; res['states'] += 1
    msg = render_problem(n, v)
    if msg is None: res['discharged'] += 1
    else: res['violations'].append(dict(key=f"vcd:rendering:{n} bits", what=msg, replay=REPLAY_RENDER % dict(n=n, v=v)))
  from corpus import vcd_designs as VD
  for name in VD.DESIGNS:
    top = _design(name); top.elaborate()
    ports = _inputs_of(top)
    for pat in (lambda w, c: 0, lambda w, c: (1 << w) - 1, lambda w, c: (0xA5A5 >> c) & ((1 << w) - 1), lambda w, c: c % (1 << w)):
      inputs = [{p: pat(w, c) for p, w in ports} for c in range(4)]
      res['obligations'] += 1; res['states'] += 1
      msg = concrete_run(name, inputs)
      if msg is None: res['discharged'] += 1
      else: res['violations'].append(dict(key=f"vcd:{name}:concrete dump", what=msg, replay=REPLAY % dict(name=name, inputs=inputs, pre=None)))
    res['obligations'] += 1; res['states'] += 1
    msg = concrete_run(name, inputs, 'sim_reset')
    if msg is None: res['discharged'] += 1
    else: res['violations'].append(dict(key=f"vcd:{name}:concrete dump after sim_reset", what=msg, replay=REPLAY % dict(name=name, inputs=inputs, pre='sim_reset')))
  res['transitions'] = res['states']
  res['distinct'].append('vcd/rendering')
  res['samples'].append(f"rendering table: {len(cases)} (width, value) pairs; {4 * len(VD.DESIGNS)} concrete end-to-end dumps")
  return res.r


def dispatch(it):
  return item_render(it) if it.get('kind') == 'render' else item(it)


def main():
  tier = sys.argv[1] if len(sys.argv) > 1 else 'quick'
  chk = Check('C16', tier)
  from corpus import vcd_designs as VD
  K = 3 if tier == 'quick' else 5
  items = [dict(name='rendering', kind='render')] + [dict(name=n, K=K) for n in VD.DESIGNS] + [dict(name=n, K=min(K, 4), reset='sym', max_paths=80000) for n in VD.SYM_RESET] + [dict(name=n, K=K - 1, pre='sim_reset') for n in VD.DESIGNS if n != 'VMany']
  for it, r in pmap(dispatch, items, item_timeout=900 if tier == 'quick' else 3600):
    chk.absorb(it, r)
  chk.bounds = dict(designs=list(VD.DESIGNS), cycles=K, inputs='every top-level input symbolic in every cycle, from the power-on state', reset='held low; symbolic in every cycle for ' + ', '.join(VD.SYM_RESET) + '; every design except VMany also after the real sim_reset() (K-1 further symbolic cycles)')
  chk.outside = ['designs outside the corpus (wider signals only change the terms, more nets multiply the paths by 2 per net and cycle)',
                 'the rendering of digits itself: Bits.to_vcd_str / Bits.bin are replaced for symbolic payloads (the replay on the real code renders them)',
                 'the printed text wave (print_textwave); only its per-cycle record is compared', 'designs with method ports (update_once blocks are covered)']
  chk.assumptions = ['Bits.to_vcd_str and Bits.bin return a value-comparing marker string for symbolic payloads', 'the dump functions run unwrapped inside the tick', 'sim_reset() items: the per-cycle values are recorded at the edge by a function placed on the hook list PrepareSimPass itself reads (VerilogTBGenPass.vtbgen_hooks), right after the dump functions', 'open() inside VcdGenerationPass returns an in-memory file (fork mode: one copy per path)']
  chk.finish(rule="per design and path (= which nets were re-dumped in which cycle): the file written by the real VcdGenerationPass is read by an independent VCD reader; "
                  "one obligation per (signal, cycle) 'dumped value == value held before the edge', plus initial values, widths, the set of declared signals, clock toggling, "
                  "and the same for the text-wave record; the digit rendering (Bits.to_vcd_str / Bits.bin) against a finite table and one concrete end-to-end dump per design and input pattern (direct comparison)")


if __name__ == '__main__':
  main()
