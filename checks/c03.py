"""C03 -- translated SystemVerilog behaves exactly like the PyMTL simulation (translation validation).
C12 runs the same machinery with backend 'y' (checks/c12.py)."""
import sys

from vlib import Check, pmap, cover
from checks._tv import check_design

BACKEND = 'v'
PROP = 'C03'


def item(it):
  cover.start()
  if it['name'] == '__svsem_selftest__': return oracle_validation(it)
  r = check_design(it['name'], it['backend'], it['K'])
  return r


def oracle_validation(it):
  """svsem is the trusted oracle: validate it on every run (hand-derived IEEE-1800 vectors + the repo's TV vectors)"""
  import warnings; warnings.filterwarnings('ignore')
  from vlib.pathcheck import Result
  from svsem import selftest
  import pymtl3.passes.testcases.test_cases as TC
  res = Result('svsem oracle validation')
  n, bad = selftest.run_vectors()
  res['replays'] += n
  for b in bad: res['inconclusive'].append(f"svsem self-test vector fails (oracle bug): {b}")
  names = sorted(x for x in dir(TC) if x.startswith('Case') and hasattr(getattr(TC, x), 'DUT') and hasattr(getattr(TC, x), 'TV'))
  ok = 0
  for nme in names[it['part']::it['parts']]:
    r = selftest.run_tv_case(nme, 'v')
    if r[0] == 'ok': ok += 1; res['replays'] += r[1]
    elif r[0] == 'fail': res['inconclusive'].append(f"svsem does not reproduce the repository's recorded outputs: {r[1]}")
  res['states'] = 1; res['transitions'] = 1
  res['note'] = f"{n} hand vectors, {ok} Case* designs with recorded vectors reproduced"
  return res.r


def corpus(tier):
  from corpus import tv_designs, exprgen
  from checks_designs import FF_NAMES
  names = ['case:' + n for n in tv_designs.case_names()]
  names += sorted(set(tv_designs.stdlib_names()) - {'ex:ProcRTL'})
  names += ['ff:' + n for n in FF_NAMES if not n.startswith('stdlib:')]
  gen = exprgen.names()
  return names, gen


def main(prop=PROP, backend=BACKEND):
  tier = sys.argv[1] if len(sys.argv) > 1 else 'quick'
  chk = Check(prop, tier, level='translation_validation')
  names, gen = corpus(tier)
  K = 3 if tier == 'quick' else 6
  items = [dict(name='ex:ProcRTL', backend=backend, K=2 if tier == 'quick' else 4)]
  items += [dict(name='__svsem_selftest__', backend='v', K=0, part=i, parts=4) for i in range(4)]
  items += [dict(name=n, backend=backend, K=K) for n in names]
  items += [dict(name=n, backend=backend, K=1) for n in gen]
  verdicts = {}
  for it, r in pmap(item, items, item_timeout=900 if tier == 'quick' else 3000):
    chk.absorb(it, r)
    v = r.get('verdict', r.get('error', '?'))
    k = v.split(':')[0].split('(')[0].strip()
    verdicts[k] = verdicts.get(k, 0) + 1
    if k.startswith(('vacuous', 'skipped')): verdicts.setdefault('_names_' + k, []).append(it['name'])
  chk.extra['verdicts'] = {k: v for k, v in verdicts.items()}
  chk.bounds = dict(cycles_after_power_on=K, proc_cycles=items[0]['K'], inputs='every top-level input incl. reset symbolic in every cycle',
                    corpus=f"{len(names)} designs (all Case* DUTs of passes/testcases, stdlib RTL, ff corpus, ChecksumRTL) + ProcRTL + {len(gen)} generated expression shapes (1 cycle)")
  chk.outside = ['placeholders / imported Verilog', 'designs the pass rejects', 'designs whose PyMTL simulation raises on every input (listed as vacuous)',
                 'constructs outside the svsem subset (listed as skipped)', 'histories longer than the cycle bound']
  chk.assumptions = ['svsem implements IEEE-1800 two-state semantics for the emitted subset (validated: svsem selftest vectors + the repo TV_IN/TV_OUT vectors)',
                     'both sides start from the all-zero state']
  chk.finish(rule="one program per corpus design accepted by the translation pass; obligations = output ports x cycles x {after eval, after tick}; "
                  "distinct = programs proved equivalent",
             explanation="translation validation: the emitted text is parsed and executed under an independent IEEE-1800 two-state semantics and compared by z3 with the symbolic PyMTL simulation of the same design")


if __name__ == '__main__':
  main()
