"""Translation validation shared by C03 (SystemVerilog back end) and C12 (Yosys back end).

For one design: the real translation pass prints text; svsem parses it, checks well-formedness (declared once,
defined once, exactly one driver per bit) and gives z3 terms for every variable per cycle; the real PyMTL
simulation of the same design runs through SymSim; every output port is compared every cycle by z3.
"""
import os
import re
import tempfile
import time
import warnings

import z3

from vlib import prove
from symx import core
from symx.core import Explorer
from symx.symsim import SymSim
from svsem.sem import SVSyntaxError, SVUnsupported
from svsem.elab import Design

warnings.filterwarnings('ignore')


def translate(mk, backend):
  """returns (text, top module name); raises whatever the pass raises"""
  from pymtl3.passes.backends.verilog import VerilogTranslationPass
  from pymtl3.passes.backends.yosys import YosysTranslationPass
  d = mk(); d.elaborate()
  P = VerilogTranslationPass if backend == 'v' else YosysTranslationPass
  d.set_metadata(P.enable, True)
  cwd = os.getcwd(); tmp = tempfile.mkdtemp(prefix='tr_', dir=os.environ.get('VERIF_SCRATCH') or None)
  os.chdir(tmp)
  try:
    d.apply(P())
    fn = d.get_metadata(P.translated_filename)
    txt = open(fn).read()
    top = d.get_metadata(P.translated_top_module)
  finally:
    os.chdir(cwd)
    for f in os.listdir(tmp):
      try: os.unlink(os.path.join(tmp, f))
      except OSError: pass
    try: os.rmdir(tmp)
    except OSError: pass
  return txt, top


def leaf_layout(val, Bits, name=''):
  """[(path, lsb offset, width)] of a signal value by the specified packing: first struct field most significant,
  list element 0 least significant (independent re-statement, cf. specs/struct_spec.py)"""
  def width(v):
    if isinstance(v, Bits): return v.nbits
    if isinstance(v, list): return sum(width(x) for x in v)
    return sum(width(getattr(v, f)) for f in v.__bitstruct_fields__)
  out = []
  def rec(v, path, hi):
    if isinstance(v, Bits):
      out.append((path, hi - v.nbits, v.nbits)); return hi - v.nbits
    if isinstance(v, list):
      for i in reversed(range(len(v))): hi = rec(v[i], f"{path}[{i}]", hi)
      return hi
    for f in v.__bitstruct_fields__: hi = rec(getattr(v, f), f"{path}.{f}", hi)
    return hi
  rec(val, name, width(val))
  return out, width(val)


def yosys_name(path):
  """'in_[0].foo[1]' -> 'in___0__foo__1' (the documented flat naming of the Yosys back end)"""
  return re.sub(r"\]", "", re.sub(r"[.\[]", "__", path))


class TV:
  def __init__(s, name, mk, backend, K):
    s.name, s.mk, s.backend, s.K = name, mk, backend, K

  def setup(s):
    from pymtl3.dsl import InPort, OutPort
    s.txt, s.topname = translate(s.mk, s.backend)
    s.D = Design(s.txt, s.topname)
    s.dut = s.mk()
    s.sim = SymSim(s.dut)
    dut = s.dut
    tops = [x for x in dut._dsl.all_signals if x.is_top_level_signal() and x.get_host_component() is dut]
    s.ins = sorted([x for x in tops if isinstance(x, InPort) and repr(x) != 's.clk'], key=repr)
    s.outs = sorted([x for x in tops if isinstance(x, OutPort)], key=repr)
    s.Bits = s.sim.Bits

  # -- port mapping ---------------------------------------------------------------------------------
  def sv_set(s, vals, sig, term):
    """drive the SV side's port for PyMTL port `sig` with the packed term"""
    r = repr(sig)[2:]
    val = s.sim.sig_value[repr(sig)]
    if s.backend == 'y':
      lay, w = leaf_layout(val, s.Bits, r)
      for path, off, wd in lay:
        fn = yosys_name(path)
        if fn not in vals: raise SVSyntaxError(f"flattened port {fn} (leaf of {r}) does not exist in the emitted module")
        if not isinstance(vals[fn], list) and vals[fn].size() != wd: raise SVSyntaxError(f"flattened port {fn} is {vals[fn].size()} bits wide, the leaf is {wd}")
        vals[fn] = z3.Extract(off + wd - 1, off, term)
      return
    toks = re.findall(r"[^.\[\]]+|\[\d+\]", r)
    base = "__".join(t for t in toks if not t.startswith('['))
    idx = [int(t[1:-1]) for t in toks if t.startswith('[')]
    if base not in vals: raise SVSyntaxError(f"port {base} does not exist in the emitted module")
    if idx:
      tgt = vals[base]
      for i in idx[:-1]: tgt = tgt[i]
      if not isinstance(tgt, list): raise SVSyntaxError(f"port {base} is not an unpacked array")
      tgt[idx[-1]] = term
    else:
      if isinstance(vals[base], list): raise SVSyntaxError(f"port {base} is an unpacked array, the PyMTL port is not")
      if vals[base].size() != term.size(): raise SVSyntaxError(f"port {base} is {vals[base].size()} bits wide, the PyMTL port is {term.size()}")
      vals[base] = term

  def sv_get(s, vals, sig):
    """[(label, sv term, lsb offset in the PyMTL packed value, width)]"""
    r = repr(sig)[2:]
    val = s.sim.sig_value[repr(sig)]
    if s.backend == 'y':
      lay, w = leaf_layout(val, s.Bits, r)
      out = []
      for path, off, wd in lay:
        fn = yosys_name(path)
        if fn not in vals: raise SVSyntaxError(f"flattened port {fn} (leaf of {r}) does not exist in the emitted module")
        out.append((fn, vals[fn], off, wd))
      return out
    toks = re.findall(r"[^.\[\]]+|\[\d+\]", r)
    base = "__".join(t for t in toks if not t.startswith('['))
    idx = [int(t[1:-1]) for t in toks if t.startswith('[')]
    if base not in vals: raise SVSyntaxError(f"port {base} does not exist in the emitted module")
    v = vals[base]
    for i in idx:
      if not isinstance(v, list): raise SVSyntaxError(f"port {base} is not an unpacked array")
      v = v[i]
    w = s.sim.value_nbits(val)
    return [(base + ''.join(f'[{i}]' for i in idx), v, 0, w)]

  # -- the joint run -------------------------------------------------------------------------------------
  def run(s):
    D, sim, dut = s.D, s.sim, s.dut
    vals = D.zero_vals()
    sim.zero_state()
    obs = []
    s.invars = []
    for cyc in range(s.K):
      for sig in s.ins:
        w = sim.value_nbits(sim.sig_value[repr(sig)])
        v = z3.BitVec(f"{repr(sig)[2:]}@{cyc}", w)
        s.invars.append((cyc, repr(sig), v))
        sim.drive(repr(sig), v)
        s.sv_set(vals, sig, v)
      for phase in ('comb', 'tick'):
        if phase == 'comb':
          dut.sim_eval_combinational(); vals = D.settle(vals)
        else:
          dut.sim_tick(); vals = D.settle(D.edge(vals))
        for sig in s.outs:
          pv = sim.sig_bv(repr(sig))
          for label, sv, off, wd in s.sv_get(vals, sig):
            if isinstance(sv, list): raise SVSyntaxError(f"port {label} is an unpacked array, the PyMTL port is not")
            obs.append((cyc, phase, label, z3.Extract(off + wd - 1, off, pv) if (off or wd != pv.size()) else pv, sv))
      if cyc == 0: D.check_drivers()
    return obs


class PyMTLRaised(Exception):
  """the PyMTL simulation itself raised on this path: no PyMTL value to compare with (path excluded)"""


REPLAY_TV = '''
sys.path.insert(0, '/verif')
from checks._tvreplay import replay_tv
msg = replay_tv(%(name)r, %(backend)r, %(K)d, %(inputs)r)
if msg: reproduced(%(name)r + " [" + %(backend)r + "]: " + msg)
'''


def check_design(name, backend, K):
  """-> result dict for vlib.Check.absorb"""
  from vlib.pathcheck import Result
  from corpus import tv_designs
  res = Result(f"{backend}:{name}")
  res['programs'] = 0
  t0 = time.time()
  mk = tv_designs.get(name)
  tv = TV(name, mk, backend, K)
  kname = tv_designs.stable_key(name)          # generated designs are keyed by their source text, not by their index

  def malformed(msg):
    res['programs'] = 1
    res['violations'].append(dict(key=f"{'yosys' if backend == 'y' else 'sv'}:{kname}:malformed:{re.sub(r' [(]bits.*', '', str(msg)).strip()[:90]}", what=f"{res['name']}: emitted text is not well-formed: {msg}",
                                  replay=REPLAY_TV % dict(name=name, backend=backend, K=1, inputs={})))
    res['verdict'] = 'malformed'
    return res.r
  try:
    tv.setup()
  except SVSyntaxError as e:
    return malformed(str(e))
  except SVUnsupported as e:
    res['verdict'] = f'skipped: construct outside the svsem subset ({e})'; res['note'] = res['verdict']
    return res.r
  except Exception as e:
    res['verdict'] = f'not accepted by the pass / not elaborable ({type(e).__name__}: {str(e)[:100]})'; res['note'] = res['verdict']
    return res.r
  res['programs'] = 1
  sim, dut = tv.sim, tv.dut
  # wrap the two simulation entry points so that exceptions raised by the PyMTL simulation are told apart
  oe, ot = dut.sim_eval_combinational, dut.sim_tick
  def guard(f):
    def g():
      try: return f()
      except (core.Unsupported, SVSyntaxError, SVUnsupported): raise
      except Exception as e: raise PyMTLRaised(f"{type(e).__name__}: {e}")
    return g
  dut.sim_eval_combinational, dut.sim_tick = guard(oe), guard(ot)
  ex = Explorer(max_paths=2000, timeout_s=600)
  compared = excluded = 0
  try:
    for pc, obs, exc in ex.paths(tv.run):
      res['states'] += 1; res['transitions'] += len(pc)
      if isinstance(exc, PyMTLRaised):
        excluded += 1; continue
      if isinstance(exc, SVSyntaxError): return malformed(str(exc))
      if isinstance(exc, SVUnsupported):
        res['verdict'] = f'skipped: {exc}'; res['note'] = res['verdict']; res['programs'] = 0; return res.r
      if exc is not None:
        res['inconclusive'].append(f"harness error: {type(exc).__name__}: {exc}"); return res.r
      compared += 1
      for cyc, phase, label, a, b in obs:
        if a.size() != b.size():
          return malformed(f"port {label} is {b.size()} bits wide in the emitted text, {a.size()} in PyMTL")
        if a.eq(b) or z3.is_true(z3.simplify(a == b)):
          res['obligations'] += 1; res['discharged'] += 1; continue
        res['obligations'] += 1
        v, m = prove(pc, a == b, 120000)
        if v == 'unsat':
          res['discharged'] += 1
        elif v == 'sat':
          inputs = {f"{c}|{sg}": m.eval(var, model_completion=True).as_long() for c, sg, var in tv.invars}
          res['violations'].append(dict(key=f"{'yosys' if backend == 'y' else 'sv'}:{kname}:output {label} differs",
                                        what=f"{res['name']} [{kname}]: output {label} differs from the PyMTL simulation in cycle {cyc} after {phase} "
                                             f"(PyMTL {m.eval(a, model_completion=True)}, emitted text {m.eval(b, model_completion=True)})",
                                        replay=REPLAY_TV % dict(name=name, backend=backend, K=K, inputs=inputs)))
          res['verdict'] = 'differs'
          return res.r
        else:
          res['inconclusive'].append(f"solver unknown on {label} cycle {cyc}: {m}")
          return res.r
  except SVSyntaxError as e:
    return malformed(str(e))
  except SVUnsupported as e:
    res['verdict'] = f'skipped: {e}'; res['note'] = res['verdict']; res['programs'] = 0; return res.r
  if compared == 0:
    res['verdict'] = 'vacuous: the PyMTL simulation raises on every path (translation-only design)'; res['programs'] = 0
  else:
    res['verdict'] = 'equivalent' + (f' ({excluded} PyMTL-raising paths excluded)' if excluded else '')
    res['distinct'].append(res['name'])
    # reachability twin: some output must be able to differ from a constant-0 reading (the comparison is not vacuous)
  res['note'] = res['verdict']
  res['samples'].append({'design': name, 'backend': backend, 'cycles': K, 'lines_of_emitted_text': tv.txt.count('\n'), 'verdict': res['verdict'],
                         'settle_rounds': tv.D.rounds})
  return res.r
