"""C17 -- library queues are FIFOs with their advertised same-cycle behaviour.

RTL queues: bounded model checking from the power-on state through the real passes (SymSim):
reset, then k cycles of fully symbolic offers (enqueue offer, message, dequeue offer, and -- where the
family resets all its state -- a symbolic reset every cycle); every cycle's ready/valid/message/count
outputs are compared by z3 with an abstract FIFO.  CL queues: fork-mode exploration (see item_cl).
"""
import sys
import z3

from vlib import Check, pmap, cover, prove, known_keys
from vlib.pathcheck import Result
from symx import core
from symx.core import Explorer
from symx.symsim import SymSim
from specs.fifo_spec import Z3Fifo, LW

from specs.queue_defs import FAMILIES, STYLE, msg_type

REPLAY = '''
sys.path.insert(0, '/verif')
import importlib
from vlib.rtlreplay import run_trace
from specs.fifo_spec import PyFifo
from specs.queue_defs import FAMILIES, STYLE, msg_type
fam, kind, n, mt = %(fam)r, %(kind)r, %(n)d, %(mt)r
mod, classes, style, _ = FAMILIES[fam]
cls = getattr(importlib.import_module(mod), classes[kind])
st = STYLE[style]
T = msg_type(mt)
mk = (lambda: cls(T, n)) if fam in ('queues', 'stream') else (lambda: cls(T))
cycles = %(cycles)r
W = T.nbits
def unpack(v): return T.from_bits(__import__('pymtl3').Bits(W, v)) if hasattr(T, 'from_bits') else v
obs = [x for x in (st['enq_rdy'], st.get('deq_rdy'), st.get('deq_x'), st['deq_msg'], st['count']) if x]
drive = [{'s.reset': c['reset'], st['eo']: c['eo'], st['msg']: unpack(c['msg']), st['do']: c['do']} for c in cycles]
tr = run_trace(mk, {}, drive, obs)
spec = PyFifo(kind, n)
for t, (c, o) in enumerate(zip(cycles, tr)):
  e = spec.cycle(c['reset'], c['eo'], c['msg'], c['do'])
  if c['reset']: continue
  got = o['comb']
  bad = []
  if got[st['enq_rdy']] != e['enq_rdy']: bad.append(f"enq_rdy={got[st['enq_rdy']]} specified {e['enq_rdy']}")
  if st.get('deq_rdy') and got[st['deq_rdy']] != e['deq_rdy']: bad.append(f"deq_rdy={got[st['deq_rdy']]} specified {e['deq_rdy']}")
  if st.get('deq_x') and got[st['deq_x']] != e['deq_x']: bad.append(f"deq happens={got[st['deq_x']]} specified {e['deq_x']}")
  if e['deq_rdy'] and (not st.get('deq_x') or e['deq_x']) and got[st['deq_msg']] != e['deq_msg']: bad.append(f"deq msg={got[st['deq_msg']]:#x} specified {e['deq_msg']:#x}")
  if st['count'] and got[st['count']] != e['count']: bad.append(f"count={got[st['count']]} specified {e['count']}")
  if bad: reproduced(f"{fam}.{classes[kind]}(n={n}) cycle {t} of {cycles}: " + "; ".join(bad))
'''


def build(fam, kind, n, mt):
  import importlib
  mod, classes, style, resets = FAMILIES[fam]
  cls = getattr(importlib.import_module(mod), classes[kind])
  T = msg_type(mt)
  return (cls(T, n) if fam in ('queues', 'stream') else cls(T)), STYLE[style], resets, T.nbits


def item_bmc(it):
  cover.start()
  fam, kind, n, mt, k = it['fam'], it['kind'], it['n'], it['mt'], it['k']
  res = Result(f"bmc/{fam}/{kind}/n={n}/msg={mt}/k={k}")
  top, st, resets, W = build(fam, kind, n, mt)
  sim = SymSim(top)
  B = lambda name: z3.BitVec(name, 1)
  ins = [dict(reset=B(f'reset{t}') if (resets and it.get('sym_reset', True)) else z3.BitVecVal(0, 1),
              eo=B(f'eo{t}'), do=B(f'do{t}'), msg=z3.BitVec(f'msg{t}', W)) for t in range(k)]
  # the specification trace and the protocol-legality assumptions (pure z3, no pymtl3 involved)
  spec = Z3Fifo(kind, n, W)
  exp = []; base = []
  for c in ins:
    r = c['reset'] == 1
    o = spec.cycle(r, c['eo'] == 1, c['msg'], c['do'] == 1)
    exp.append(o)
    base.append(z3.Implies(r, z3.And(c['eo'] == 0, c['do'] == 0)))            # nothing is offered while reset is high
    if st['legal']:
      base.append(z3.Implies(c['eo'] == 1, o['enq_rdy']))
      if st.get('deq_rdy'): base.append(z3.Implies(c['do'] == 1, o['deq_rdy']))
  b1 = lambda b: z3.If(b, z3.BitVecVal(1, 1), z3.BitVecVal(0, 1))

  def run():
    sim.zero_state()
    # reset cycle(s) exactly as sim_reset applies them: reset high, nothing offered
    for _ in range(2):
      sim.set('s.reset', 1); sim.set(st['eo'], 0); sim.set(st['do'], 0); sim.drive(st['msg'], 0)
      sim.top.sim_eval_combinational(); sim.top.sim_tick()
    outs = []
    for c in ins:
      sim.set('s.reset', c['reset']); sim.set(st['eo'], c['eo']); sim.set(st['do'], c['do']); sim.drive(st['msg'], c['msg'])
      sim.top.sim_eval_combinational()
      o = dict(enq_rdy=sim.sig_bv(st['enq_rdy']), deq_msg=sim.sig_bv(st['deq_msg']))
      if st.get('deq_rdy'): o['deq_rdy'] = sim.sig_bv(st['deq_rdy'])
      if st.get('deq_x'): o['deq_x'] = sim.sig_bv(st['deq_x'])
      if st['count']: o['count'] = sim.sig_bv(st['count'])
      outs.append(o)
      sim.top.sim_tick()
    return outs

  cname = f"{fam}.{FAMILIES[fam][1][kind]}"
  known = known_keys('C17')

  def report(m, what, key, exc=None):
    g = lambda x: m.eval(x, model_completion=True).as_long()
    cycles = [dict(reset=1, eo=0, msg=0, do=0)] * 2 + [dict(reset=g(c['reset']), eo=g(c['eo']), msg=g(c['msg']), do=g(c['do'])) for c in ins]
    res['violations'].append(dict(key=key, what=f"{res['name']}: {what}" + (f" ({type(exc).__name__}: {exc})" if exc else ''),
                                  replay=REPLAY % dict(fam=fam, kind=kind, n=n, mt=mt, cycles=cycles)))

  ex = Explorer(base_pc=base, max_paths=300)
  for pc, outs, exc in ex.paths(run):
    res['states'] += 1; res['transitions'] += len(pc)
    full = base + pc
    if exc is not None:
      res['obligations'] += 1
      v, m = prove(full, z3.BoolVal(False))
      if v == 'sat': report(m, "simulation raised", f"{cname}:exception", exc)
      continue
    # handshake outputs (rdy / val / "a dequeue happens"), then data outputs given correct handshakes
    hs = []; data = []
    for t, (c, o, e) in enumerate(zip(ins, outs, exp)):
      nr = c['reset'] == 0
      hs.append((t, 'enq_rdy', nr, o['enq_rdy'], b1(e['enq_rdy']), e['count']))
      if 'deq_rdy' in o: hs.append((t, 'deq_rdy', nr, o['deq_rdy'], b1(e['deq_rdy']), e['count']))
      if 'deq_x' in o:
        hs.append((t, 'deq_happens', nr, o['deq_x'], b1(e['deq_x']), e['count']))
        data.append(z3.Implies(z3.And(nr, e['deq_x']), o['deq_msg'] == e['deq_msg']))
      else:
        data.append(z3.Implies(z3.And(nr, e['deq_rdy']), o['deq_msg'] == e['deq_msg']))
      if 'count' in o:
        cw = o['count'].size()
        data.append(z3.Implies(nr, (z3.ZeroExt(LW - cw, o['count']) if cw < LW else o['count']) == (e['count'] if cw <= LW else z3.ZeroExt(cw - LW, e['count']))))
    g_hs = z3.And(*[z3.Implies(nr, i == sp_) for t, nm, nr, i, sp_, ln in hs])
    excl = []
    for _round in range(6):
      res['obligations'] += 1
      v, m = prove(full + excl, g_hs)
      if v == 'unsat':
        res['discharged'] += 1; res['distinct'].append(f"{res['name']}#{res['states']}hs{_round}"); break
      if v != 'sat':
        res['inconclusive'].append(f"solver unknown: {m}"); break
      ev = lambda x: m.eval(x, model_completion=True).as_long()
      bad = [(t, nm, ev(i), ev(ln)) for t, nm, nr, i, sp_, ln in hs if ev(nr if False else z3.If(nr, z3.BitVecVal(1, 1), z3.BitVecVal(0, 1))) and ev(i) != ev(sp_)]
      t, nm, iv, ln = bad[0]
      key = f"{cname}:{nm}={iv} at occupancy {ln} of {n}"
      report(m, f"handshake output differs from the FIFO specification: {nm}={iv} at occupancy {ln} of {n} (cycle {t})", key)
      if key not in known: break
      # a listed finding: exclude exactly this class of deviation and look for any OTHER violation
      excl.append(z3.And(*[z3.Not(z3.And(nr, ln_ == ln, i == iv, sp_ != iv)) for t_, nm_, nr, i, sp_, ln_ in hs if nm_ == nm]))
    res['obligations'] += 1
    v, m = prove(full + [g_hs], z3.And(*data))
    if v == 'unsat':
      res['discharged'] += 1; res['distinct'].append(f"{res['name']}#{res['states']}data")
    elif v == 'sat':
      report(m, "delivered message or count differs from the FIFO specification", f"{cname}:data")
    else:
      res['inconclusive'].append(f"solver unknown: {m}")
    if not res['twins_expected']:
      res['twins_expected'] = 1     # "the queue is never full" must be refutable within k cycles
      if prove(full, z3.And(*[z3.Or(c['reset'] == 1, e['enq_rdy']) for c, e in zip(ins, exp)]))[0] == 'sat' or kind == 'pipe':
        res['twins_sat'] = 1
  res['samples'].append(f"{res['name']}: {res['states']} outer path(s), {sim.stats['blk_paths']} block paths merged; inputs per cycle: reset, enq offer, {W}-bit msg, deq offer (all symbolic)")
  return res.r


REPLAY_STEP = '''
sys.path.insert(0, '/verif')
import importlib
from vlib.rtlreplay import run_trace
from specs.fifo_spec import PyFifo
from specs.queue_defs import FAMILIES, STYLE, msg_type
fam, kind, n = %(fam)r, %(kind)r, %(n)d
mod, classes, style, _ = FAMILIES[fam]
cls = getattr(importlib.import_module(mod), classes[kind]); st = STYLE[style]; T = msg_type('8')
pre, cyc, seq = %(pre)r, %(cyc)r, %(seq)r
obs = [x for x in (st['enq_rdy'], st.get('deq_rdy'), st['deq_msg'], st['count']) if x]
tr = run_trace(lambda: cls(T, n), pre, [{'s.reset': cyc['reset'], st['eo']: cyc['eo'], st['msg']: cyc['msg'], st['do']: cyc['do']}, {'s.reset': 0, st['eo']: 0, st['msg']: 0, st['do']: 0}], obs)
spec = PyFifo(kind, n); spec.q = list(seq)
e = spec.cycle(cyc['reset'], cyc['eo'], cyc['msg'], cyc['do'])
got = tr[0]['comb']; bad = []
if not cyc['reset']:
  if got[st['enq_rdy']] != e['enq_rdy']: bad.append(f"enq_rdy={got[st['enq_rdy']]} specified {e['enq_rdy']}")
  if st.get('deq_rdy') and got[st['deq_rdy']] != e['deq_rdy']: bad.append(f"deq_rdy={got[st['deq_rdy']]} specified {e['deq_rdy']}")
  if e['deq_rdy'] and got[st['deq_msg']] != e['deq_msg']: bad.append(f"deq msg={got[st['deq_msg']]:#x} specified {e['deq_msg']:#x}")
  if got[st['count']] != e['count']: bad.append(f"count={got[st['count']]} specified {e['count']}")
e2 = spec.cycle(0, 0, 0, 0)      # next cycle: the abstract content must be what the specification says
g2 = tr[1]['comb']
if g2[st['count']] != e2['count']: bad.append(f"count after the step={g2[st['count']]} specified {e2['count']}")
if e2['deq_rdy'] and g2[st['deq_msg']] != e2['deq_msg']: bad.append(f"head after the step={g2[st['deq_msg']]:#x} specified {e2['deq_msg']:#x}")
if bad: reproduced(f"{fam}.{classes[kind]}(n={n}) one step from content {seq} (registers {pre}) with {cyc}: " + "; ".join(bad))
'''


def item_step(it):
  """one inductive step from ANY state satisfying the representation invariant (covers histories of any length)"""
  cover.start()
  fam, kind, n = it['fam'], it['kind'], it['n']
  res = Result(f"step/{fam}/{kind}/n={n}")
  top, st, resets, W = build(fam, kind, n, '8')
  sim = SymSim(top)
  regs_name = 's.dpath.queue.regs' if fam == 'queues' else 's.dpath.rf.regs'
  probe = sim.symbolic_state()
  head, tail, count = probe['s.ctrl.head'], probe['s.ctrl.tail'], probe['s.ctrl.count']
  regs = [probe[f'{regs_name}[{i}]'] for i in range(n)]
  reset, eo, do, msg = probe['s.reset'], probe[st['eo']], probe[st['do']], probe[st['msg']]
  ww = max(head.size(), count.size()) + 2
  zx = lambda x: z3.ZeroExt(ww - x.size(), x) if x.size() < ww else x
  def inv(h, t, c):
    return z3.And(z3.ULE(h, n - 1), z3.ULE(t, n - 1), z3.ULE(c, n), z3.URem(zx(h) + zx(c), z3.BitVecVal(n, ww)) == zx(t))
  def items_of(h, rg):
    out = []
    for i in range(n):
      idx = z3.URem(zx(h) + i, z3.BitVecVal(n, ww))
      e = rg[n - 1]
      for k in reversed(range(n - 1)): e = z3.If(idx == k, rg[k], e)
      out.append(e)
    return out
  spec = Z3Fifo(kind, n, W).from_terms(items_of(head, regs), z3.ZeroExt(LW - count.size(), count))
  pre_items = list(spec.items); pre_len = spec.len
  o = spec.cycle(reset == 1, eo == 1, msg, do == 1)
  base = [inv(head, tail, count), z3.Implies(reset == 1, z3.And(eo == 0, do == 0))]
  if st['legal']:
    base.append(z3.Implies(eo == 1, o['enq_rdy']))
    if st.get('deq_rdy'): base.append(z3.Implies(do == 1, o['deq_rdy']))
  b1 = lambda b: z3.If(b, z3.BitVecVal(1, 1), z3.BitVecVal(0, 1))

  def run():
    sim.symbolic_state()
    sim.top.sim_eval_combinational()
    out = dict(enq_rdy=sim.sig_bv(st['enq_rdy']), deq_msg=sim.sig_bv(st['deq_msg']), count=sim.sig_bv(st['count']))
    if st.get('deq_rdy'): out['deq_rdy'] = sim.sig_bv(st['deq_rdy'])
    sim.top.sim_tick()
    post = dict(head=sim.bv('s.ctrl.head'), tail=sim.bv('s.ctrl.tail'), count=sim.bv('s.ctrl.count'), regs=[sim.bv(f'{regs_name}[{i}]') for i in range(n)])
    return out, post
  for pc, out, exc in Explorer(base_pc=base, max_paths=100).paths(run):
    res['states'] += 1; res['transitions'] += len(pc); res['obligations'] += 1
    full = base + pc
    if exc is not None: goal = z3.BoolVal(False)
    else:
      ov, post = out
      nr = reset == 0
      g = [z3.Implies(nr, ov['enq_rdy'] == b1(o['enq_rdy'])), z3.Implies(nr, z3.ZeroExt(LW - ov['count'].size(), ov['count']) == o['count'])]
      if 'deq_rdy' in ov: g.append(z3.Implies(nr, ov['deq_rdy'] == b1(o['deq_rdy'])))
      g.append(z3.Implies(z3.And(nr, o['deq_rdy']), ov['deq_msg'] == o['deq_msg']))
      g.append(inv(post['head'], post['tail'], post['count']))
      g.append(z3.ZeroExt(LW - post['count'].size(), post['count']) == spec.len)
      pit = items_of(post['head'], post['regs'])
      for i in range(n): g.append(z3.Implies(z3.UGT(spec.len, i), pit[i] == spec.items[i]))
      goal = z3.And(*g)
    v, m = prove(full, goal)
    if v == 'unsat': res['discharged'] += 1; res['distinct'].append(f"{res['name']}#{res['states']}")
    elif v == 'sat':
      gv = lambda x: m.eval(x, model_completion=True).as_long()
      ln = gv(pre_len)
      pre = {'s.ctrl.head': gv(head), 's.ctrl.tail': gv(tail), 's.ctrl.count': gv(count)}
      for i in range(n): pre[f'{regs_name}[{i}]'] = gv(regs[i])
      res['violations'].append(dict(key=f"{fam}.{FAMILIES[fam][1][kind]}:step", what=f"{res['name']}: one step from a state satisfying the invariant leaves the FIFO specification" + (f" ({type(exc).__name__}: {exc})" if exc else ''),
                                    replay=REPLAY_STEP % dict(fam=fam, kind=kind, n=n, pre=pre, cyc=dict(reset=gv(reset), eo=gv(eo), msg=gv(msg), do=gv(do)), seq=[gv(x) for x in pre_items[:ln]])))
    else: res['inconclusive'].append(f"solver unknown: {m}")
    if exc is None and not res['twins_expected']:
      res['twins_expected'] = 1
      if prove(full, z3.Not(z3.And(eo == 1, do == 1, reset == 0)))[0] == 'sat': res['twins_sat'] = 1
  res['samples'].append(f"{res['name']}: any (head, tail, count, registers) with head,tail <= n-1, count <= n, tail == (head+count) mod n; abstraction = registers read from head")
  return res.r


REPLAY_CL = '''
sys.path.insert(0, '/verif')
from specs.cl_harness import run_harness
from specs.fifo_spec import PyFifo
from pymtl3 import Bits16
import pymtl3.stdlib.queues.cl_queues as CL
kind, n, order = %(kind)r, %(n)d, %(order)r
eo, do, vals = %(eo)r, %(do)r, %(vals)r
cls = {'normal': CL.NormalQueueCL, 'pipe': CL.PipeQueueCL, 'bypass': CL.BypassQueueCL}[kind]
try:
  log = run_harness(cls, n, eo, do, [Bits16(v) for v in vals], order)
except Exception as e:
  reproduced(f"{kind} CL queue n={n} offers eo={eo} do={do}: simulation raised {type(e).__name__}: {e}")
spec = PyFifo(kind, n)
for t in range(len(eo)):
  e = spec.cycle(False, eo[t], t, do[t])
  got = log[t]
  bad = []
  if got.get('enq_rdy') != e['enq_rdy']: bad.append(f"enq.rdy()={got.get('enq_rdy')} specified {e['enq_rdy']}")
  if got.get('deq_rdy') != e['deq_rdy']: bad.append(f"deq.rdy()={got.get('deq_rdy')} specified {e['deq_rdy']}")
  if e['deq_x']:
    if 'deq_msg' not in got or int(got['deq_msg']) != vals[e['deq_msg']]: bad.append(f"deq() returned {got.get('deq_msg')} specified message #{e['deq_msg']} = {vals[e['deq_msg']]:#x}")
  elif 'deq_msg' in got: bad.append("deq() happened although not specified")
  if bad: reproduced(f"{kind} CL queue n={n} cycle {t}, offers eo={eo} do={do} msgs={vals}: " + "; ".join(bad))
'''


def item_cl(it):
  """cycle-level queues, fork mode: offers and messages symbolic, driven through two update_once blocks that the
  real scheduler orders by the queue's own method constraints"""
  cover.start()
  from symx import pymtl as sp
  from symx.forkx import ForkExplorer
  from specs.cl_harness import run_harness
  from specs.fifo_spec import PyFifo
  import pymtl3.stdlib.queues.cl_queues as CL
  kind, n, k = it['kind'], it['n'], it['k']
  name = f"cl/{kind}/n={n}/k={k}" + (f"/{it['order']}" if it.get('order') else '')
  sp.setup()
  cls = {'normal': CL.NormalQueueCL, 'pipe': CL.PipeQueueCL, 'bypass': CL.BypassQueueCL}[kind]
  eos = [core.fresh(f'eo{t}', 1) for t in range(k)]
  dos = [core.fresh(f'do{t}', 1) for t in range(k)]
  msgs = [sp.sym_bits(16, f'msg{t}') for t in range(k)]

  def leaf(pc, log, exc):
    rec = dict(obligations=0, discharged=0, violations=[], inconclusive=[], decisions=len(pc))
    sv = z3.Solver(); sv.add(*pc); assert sv.check() == z3.sat
    m = sv.model()
    g = lambda x: m.eval(x, model_completion=True).as_long()
    eo = [g(v) for _, v in eos]; do = [g(v) for _, v in dos]; vals = [g(v) for _, v in msgs]
    rep = REPLAY_CL % dict(kind=kind, n=n, eo=eo, do=do, vals=vals, order=it.get('order'))
    def viol(what, model=None):
      r2 = rep
      if model is not None:
        gg = lambda x: model.eval(x, model_completion=True).as_long()
        r2 = REPLAY_CL % dict(kind=kind, n=n, eo=[gg(v) for _, v in eos], do=[gg(v) for _, v in dos], vals=[gg(v) for _, v in msgs], order=it.get('order'))
      rec['violations'].append(dict(key=f"cl_queues.{cls.__name__}", what=f"{name}: {what}", replay=r2))
    rec['obligations'] += 1
    if exc is not None:
      viol(f"simulation raised {type(exc).__name__}: {exc}"); return rec
    spec = PyFifo(kind, n)
    ok = True
    for t in range(k):
      e = spec.cycle(False, eo[t], t, do[t])
      got = log[t] if t < len(log) else {}
      if got.get('enq_rdy') != e['enq_rdy'] or got.get('deq_rdy') != e['deq_rdy'] or (('deq_msg' in got) != e['deq_x']):
        viol(f"cycle {t}: rdy/deq behaviour {got} differs from the FIFO specification {e}"); ok = False; break
      if e['deq_x']:
        rec['obligations'] += 1
        v, mm = prove(pc, sp.bits_bv(got['deq_msg']) == msgs[e['deq_msg']][1])
        if v == 'unsat': rec['discharged'] += 1
        elif v == 'sat': viol(f"cycle {t}: delivered message is not accepted message #{e['deq_msg']}", mm); ok = False; break
        else: rec['inconclusive'].append(f"solver unknown {mm}")
    if ok: rec['discharged'] += 1
    rec['sample'] = f"{name}: offers eo={eo} do={do}"
    return rec

  fx = ForkExplorer(leaf=leaf, max_paths=40000)
  recs = fx.run(lambda: run_harness(cls, n, [e for e, _ in eos], [d for d, _ in dos], [b for b, _ in msgs], it.get('order')))
  res = Result(name)
  for r in recs:
    if 'error' in r: res['inconclusive'].append(r['error']); continue
    res['states'] += 1; res['transitions'] += r['decisions']
    res['obligations'] += r['obligations']; res['discharged'] += r['discharged']
    res['inconclusive'] += r['inconclusive']
    if r['violations'] and len(res['violations']) < 3: res['violations'] += r['violations']
    if not res['samples'] and 'sample' in r: res['samples'].append(r['sample'])
  res['distinct'] = [f"{name}#{i}" for i in range(res['discharged'])]
  res['stats'] = {'solver_checks': sum(r.get('_stats', {}).get('solver_checks', 0) for r in recs),
                  'solver_s': round(sum(r.get('_stats', {}).get('solver_s', 0) for r in recs), 3), 'paths': len(recs)}
  return res.r


REPLAY_AD = '''
sys.path.insert(0, '/verif')
from specs.cl_harness import run_adapter_harness
from pymtl3 import Bits16
from pymtl3.stdlib.queues.queues import NormalQueueRTL, PipeQueueRTL, BypassQueueRTL
kind, n = %(kind)r, %(n)d
eo, do, vals = %(eo)r, %(do)r, %(vals)r
cls = {'normal': NormalQueueRTL, 'pipe': PipeQueueRTL, 'bypass': BypassQueueRTL}[kind]
acc, dl = run_adapter_harness(cls, n, eo, do, [Bits16(v) for v in vals], Bits16)
want = [vals[t] for t in acc]
got = [int(x) for x in dl]
if got != want[:len(got)] or len(got) > len(want):
  reproduced(f"{kind} RTL queue n={n} behind the CL-to-RTL adapter, producer reusing one message object, offers eo={eo} do={do}: accepted {[hex(v) for v in want]}, delivered {[hex(v) for v in got]}")
'''


REPLAY_AD2 = '''
sys.path.insert(0, '/verif')
from specs.cl_harness import run_recv_adapter_harness
from pymtl3 import Bits16
import pymtl3.stdlib.queues.cl_queues as CL
kind, n = %(kind)r, %(n)d
eo, do, vals = %(eo)r, %(do)r, %(vals)r
cls = {'normal': CL.NormalQueueCL, 'pipe': CL.PipeQueueCL, 'bypass': CL.BypassQueueCL}[kind]
try:
  acc, kept = run_recv_adapter_harness(cls, n, eo, do, [Bits16(v) for v in vals], Bits16)
except Exception as e:
  reproduced(f"{kind} CL queue n={n} behind the RTL-to-CL adapter, offers eo={eo} do={do}: simulation raised {type(e).__name__}: {e}")
want = [vals[t] for t in acc]
got = [int(x) for x in kept]
if got != want:
  reproduced(f"{kind} CL queue n={n} fed by an RTL producer through RecvRTL2SendCL, consumer keeping what it was handed, offers eo={eo} do={do}: accepted {[hex(v) for v in want]}, the delivered objects read {[hex(v) for v in got]} at the end of the run")
'''


def item_adapter(it):
  """a cycle-level producer that reuses ONE message object feeds an RTL queue through the library's RecvCL2SendRTL
  adapter (fork mode; offers and messages symbolic): the delivered messages are a prefix of the accepted ones, in order"""
  cover.start()
  from symx import pymtl as sp
  from symx.forkx import ForkExplorer
  from specs.cl_harness import run_adapter_harness, run_recv_adapter_harness
  from pymtl3.stdlib.queues.queues import NormalQueueRTL, PipeQueueRTL, BypassQueueRTL
  import pymtl3.stdlib.queues.cl_queues as CLQ
  kind, n, k = it['kind'], it['n'], it['k']
  RTL2CL = it.get('side') == 'rtl2cl'      # RTL producer -> RecvRTL2SendCL -> CL queue -> CL consumer that keeps the objects; drained at the end
  name = f"adapter{'-rtl2cl' if RTL2CL else ''}/{kind}/n={n}/k={k}"
  Bits = sp.setup()
  from pymtl3 import Bits16
  cls = {'normal': NormalQueueRTL, 'pipe': PipeQueueRTL, 'bypass': BypassQueueRTL}[kind]
  if RTL2CL: cls = {'normal': CLQ.NormalQueueCL, 'pipe': CLQ.PipeQueueCL, 'bypass': CLQ.BypassQueueCL}[kind]
  harness = run_recv_adapter_harness if RTL2CL else run_adapter_harness
  eos = [core.fresh(f'eo{t}', 1) for t in range(k)]
  dos = [core.fresh(f'do{t}', 1) for t in range(k)]
  msgs = [sp.sym_bits(16, f'msg{t}') for t in range(k)]

  def leaf(pc, out, exc):
    rec = dict(obligations=1, discharged=0, violations=[], inconclusive=[], decisions=len(pc))
    def viol(what, model=None):
      if model is None:
        sv = z3.Solver(); sv.add(*pc); assert sv.check() == z3.sat; model = sv.model()
      gg = lambda x: model.eval(x, model_completion=True).as_long()
      rec['violations'].append(dict(key=f"adapter:{cls.__name__}", what=f"{name}: {what}",
                                    replay=(REPLAY_AD2 if RTL2CL else REPLAY_AD) % dict(kind=kind, n=n, eo=[gg(v) for _, v in eos], do=[gg(v) for _, v in dos], vals=[gg(v) for _, v in msgs])))
    if exc is not None:
      viol(f"simulation raised {type(exc).__name__}: {exc}"); return rec
    acc, dl = out
    if len(dl) > len(acc) or (RTL2CL and len(dl) != len(acc)): viol(f"{len(dl)} messages delivered, {len(acc)} accepted" + (" (after draining)" if RTL2CL else "")); return rec
    ok = True
    for i, x in enumerate(dl):
      rec['obligations'] += 1
      v, mm = prove(pc, sp.bits_bv(x) == msgs[acc[i]][1])
      if v == 'unsat': rec['discharged'] += 1
      elif v == 'sat': viol(f"delivered message #{i} is not the {i}-th accepted message (offer of cycle {acc[i]})", mm); ok = False; break
      else: rec['inconclusive'].append(f"solver unknown {mm}")
    if ok: rec['discharged'] += 1
    rec['sample'] = f"{name}: {len(acc)} accepted, {len(dl)} delivered"
    return rec

  fx = ForkExplorer(leaf=leaf, max_paths=40000)
  recs = fx.run(lambda: harness(cls, n, [e for e, _ in eos], [d for d, _ in dos], [b for b, _ in msgs], Bits16))
  res = Result(name)
  for r in recs:
    if 'error' in r: res['inconclusive'].append(r['error']); continue
    res['states'] += 1; res['transitions'] += r['decisions']
    res['obligations'] += r['obligations']; res['discharged'] += r['discharged']
    res['inconclusive'] += r['inconclusive']
    if r['violations'] and len(res['violations']) < 3: res['violations'] += r['violations']
    if not res['samples'] and 'sample' in r: res['samples'].append(r['sample'])
  res['distinct'] = [f"{name}#{i}" for i in range(res['states'])]
  res['stats'] = {'solver_checks': sum(r.get('_stats', {}).get('solver_checks', 0) for r in recs),
                  'solver_s': round(sum(r.get('_stats', {}).get('solver_s', 0) for r in recs), 3), 'paths': len(recs)}
  return res.r


def dispatch(it):
  return {'bmc': item_bmc, 'cl': item_cl, 'step': item_step, 'adapter': item_adapter}[it['kind_']](it)


def main():
  tier = sys.argv[1] if len(sys.argv) > 1 else 'quick'
  chk = Check('C17', tier)
  items = []
  ns = [1, 2, 3] if tier == 'quick' else [1, 2, 3, 4, 5]
  for fam in ('queues', 'stream'):
    for kind in ('normal', 'pipe', 'bypass'):
      for n in ns:
        k = 2 * n + 2 if tier == 'quick' else 2 * n + 3
        items.append(dict(kind_='bmc', fam=fam, kind=kind, n=n, mt='8', k=k))
      items.append(dict(kind_='bmc', fam=fam, kind=kind, n=2, mt='struct', k=6))
      if tier == 'thorough': items.append(dict(kind_='bmc', fam=fam, kind=kind, n=2, mt='32', k=7))
  for kind in ('normal', 'pipe', 'bypass'):
    items.append(dict(kind_='bmc', fam='enrdy1', kind=kind, n=1, mt='8', k=5 if tier == 'quick' else 7))
  items.append(dict(kind_='bmc', fam='enrdy2', kind='bypass', n=2, mt='8', k=6 if tier == 'quick' else 8))
  for fam in ('queues', 'stream'):
    for kind in ('normal', 'pipe', 'bypass'):
      for n in ([2, 3, 4] if tier == 'quick' else [2, 3, 4, 5, 7, 8]):
        items.append(dict(kind_='step', fam=fam, kind=kind, n=n, mt='8', k=1))
  for kind in ('normal', 'pipe', 'bypass'):
    for n in ([1, 2] if tier == 'quick' else [1, 2, 3]):
      for order in ((None,) if kind != 'normal' else ('enq_first', 'deq_first')):      # NormalQueueCL declares no order between enq and deq: both caller orders
        items.append(dict(kind_='cl', kind=kind, n=n, mt='16', k=2 * n + 1 if n < 3 else 6, order=order))
  for kind, n, k in ((('normal', 2, 5), ('bypass', 1, 4), ('pipe', 2, 5)) if tier == 'quick' else (('normal', 2, 6), ('normal', 3, 7), ('bypass', 1, 5), ('bypass', 2, 6), ('pipe', 1, 5), ('pipe', 2, 6))):
    items.append(dict(kind_='adapter', kind=kind, n=n, k=k, mt='16'))
  for kind, n, k in ((('normal', 2, 4), ('bypass', 1, 4), ('pipe', 1, 4)) if tier == 'quick' else (('normal', 1, 5), ('normal', 2, 5), ('bypass', 1, 5), ('bypass', 2, 5), ('pipe', 1, 5), ('pipe', 2, 5))):
    items.append(dict(kind_='adapter', side='rtl2cl', kind=kind, n=n, k=k, mt='16'))
  items.sort(key=lambda it: -it['k'] * it['n'] * (50 if it['kind_'] == 'cl' else 1))
  for it, r in pmap(dispatch, items, item_timeout=900 if tier == 'quick' else 3000):
    chk.absorb(it, r)
  chk.bounds = dict(capacities=ns, cycles='2n+2 (quick) / 2n+3 (thorough) after reset', message='8 bits, one 12-bit struct (nested list field), 32 bits (thorough)',
                    reset='symbolic every cycle for the queues.py and stream families; power-on only for enrdy_queues (their full bit is a Reg without reset)')
  chk.outside = ['capacities above the bound', 'GetRTL2GiveCL (cannot be constructed on this tree: reads s.get.msg, GetIfcRTL has ret) and the FL adapters', 'valrdy_queues.py (does not import on this tree: InValRdyIfc no longer exists)',
                 'histories longer than the cycle bound for the 1-entry, enrdy and CL queues (the N-entry queues.py / stream families additionally have an inductive step)']
  chk.assumptions = ['environment offers nothing while reset is high', 'en/rdy callers obey the protocol: en only when the (specified) rdy is high',
                     'scheduler = DynamicSchedulePass']
  chk.finish(rule="one BMC item per (family, kind, capacity, message type): all offers/messages/resets of all cycles symbolic, one obligation per outer path = "
                  "conjunction over cycles of (rdy/val/msg/count == abstract FIFO); adapter items: a CL producer reusing one message object in front of an RTL queue through RecvCL2SendRTL, delivered == prefix of accepted; an RTL producer in front of a CL queue through RecvRTL2SendCL, consumer keeping the objects and draining, delivered == accepted")


if __name__ == '__main__':
  main()
