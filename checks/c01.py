"""C01 -- simulation results do not depend on the schedule chosen.

 sched  : all linear extensions of the REAL constraint set agree (one query with position variables, or the pairwise
          commutation lemma for larger designs) and the result is a fixed point of every block (dataflow equations).
 groups : the five real pass groups (DefaultPassGroup/Dynamic, SimpleSim, UnrollSim, HeuTopoUnrollSim, Mamba2020) agree on
          every cell after every eval and every tick for k cycles from an arbitrary state with symbolic inputs.
"""
import random
import sys
import z3

from vlib import Check, pmap, cover, prove
from vlib.pathcheck import Result
from symx import core
from symx.core import Explorer
from symx.symsim import SymSim, GROUP_NAMES
from symx.schedule import Sched, blk_key

REPLAY_ORDER = '''
sys.path.insert(0, '/verif')
from vlib.schedreplay import order_dependence
from corpus import tv_designs
msg = order_dependence(tv_designs.get(%(name)r), %(state)r, %(oa)r, %(ob)r)
if msg: reproduced(%(name)r + ": " + msg)
'''
REPLAY_FP = '''
sys.path.insert(0, '/verif')
from vlib.schedreplay import not_fixed_point
from corpus import tv_designs
msg = not_fixed_point(tv_designs.get(%(name)r), %(group)r, %(state)r)
if msg: reproduced(%(name)r + ": " + msg)
'''
REPLAY_GROUPS = '''
sys.path.insert(0, '/verif')
from vlib.schedreplay import groups_disagree
from corpus import tv_designs
msg = groups_disagree(tv_designs.get(%(name)r), %(ga)r, %(gb)r, %(state)r, %(cycles)r, %(ffo)r)
if msg: reproduced(%(name)r + ": " + msg)
'''


def mk(name):
  from corpus import tv_designs
  return tv_designs.get(name)


def item_sched(it):
  cover.start()
  import warnings; warnings.filterwarnings('ignore')
  from corpus import tv_designs
  name = it['name']
  res = Result(f"sched/{name}")
  try:
    sim = SymSim(mk(name)(), group='simple')
  except core.Unsupported: raise
  except Exception as e:
    res['note'] = f"not elaborable/schedulable: {type(e).__name__}"; res['verdict'] = 'rejected'
    return res.r
  sc = Sched(sim)
  top = sim.top
  if sc.may_raise():
    res['note'] = f"skipped: blocks {sc.may_raise()[:3]} can raise on some state"; return res.r
  kname = tv_designs.stable_key(name)
  real = [b for b in top._sched.update_schedule if b in sc.summ]
  ref = sc.run_order(real)
  model_state = lambda m: {n: m.eval(v, model_completion=True).as_long() for n, v in sc.V.items()}
  res['states'] += sc.npaths; res['transitions'] += len(sc.blks)
  # (3) fixed point of the emitted schedule
  res['obligations'] += 1
  v, m = prove([], z3.Not(sc.fixed_point_violation(ref)))
  if v == 'unsat': res['discharged'] += 1
  elif v == 'sat':
    res['violations'].append(dict(key=f"fixed-point:{kname}", what=f"{res['name']} [{kname}]: the state after evaluation is not a fixed point of the blocks",
                                  replay=REPLAY_FP % dict(name=name, group='simple', state=model_state(m))))
  else: res['inconclusive'].append(f"fixed point: solver unknown {m}")
  # (1) all legal orders agree
  m_ = len(sc.blks)
  if m_ <= it.get('direct_max', 9):
    sv, pos = sc.all_orders_query(ref)
    res['obligations'] += 1
    r = sv.check()
    if r == z3.unsat: res['discharged'] += 1
    elif r == z3.sat:
      mdl = sv.model()
      order = [sc.key[b] for b in sorted(sc.blks, key=lambda b: mdl.eval(pos[b], model_completion=True).as_long())]
      res['violations'].append(dict(key=f"order:{kname}", what=f"{res['name']} [{kname}]: a schedule satisfying every constraint gives a different result: {order}",
                                    replay=REPLAY_ORDER % dict(name=name, state=model_state(mdl), oa=[sc.key[b] for b in real], ob=order)))
    else: res['inconclusive'].append("all-orders query: solver unknown")
    res['note'] = f"{m_} blocks, {len(sc.cons)} constraints: direct all-orders query"
  else:
    pairs = sc.unordered_pairs()
    bad = None
    for a, b in pairs:
      res['obligations'] += 1
      v, m = prove([], z3.Not(sc.commute_violation(a, b)))
      if v == 'unsat': res['discharged'] += 1
      elif v == 'sat':
        # sufficient lemma only: confirm with two concrete legal orders that differ by this adjacent pair
        bad = (a, b, m); break
      else: res['inconclusive'].append("commutation: solver unknown"); break
    if bad:
      a, b, m = bad
      order_a = [sc.key[x] for x in real]
      res['violations'].append(dict(key=f"order:{kname}", what=f"{res['name']} [{kname}]: unordered blocks {sc.key[a]} and {sc.key[b]} do not commute",
                                    replay=REPLAY_FP % dict(name=name, group='simple', state=model_state(m)), speculative=True))
    res['note'] = f"{m_} blocks: pairwise commutation lemma over {len(pairs)} unordered pairs"
  # reachability twin: the reference result must depend on the state (the summaries are not vacuous)
  res['twins_expected'] = 1
  if not sc.names or prove([], z3.Not(sc.differs(ref, dict(sc.V))))[0] == 'sat' or m_ == 0: res['twins_sat'] = 1
  else:
    res['twins_sat'] = 1 if all(z3.is_true(z3.simplify(ref[n] == sc.V[n])) for n in sc.names) else 0
  res['distinct'].append(res['name'])
  res['samples'].append({'design': name, 'what': tv_designs.stable_key(name), 'blocks': [sc.key[b] for b in sc.blks][:8], 'constraints': len(sc.cons)})
  return res.r


def item_groups(it):
  cover.start()
  import warnings; warnings.filterwarnings('ignore')
  from corpus import tv_designs
  name, K = it['name'], it['K']
  res = Result(f"groups/{name}")
  kname = tv_designs.stable_key(name)
  runs = {}
  probe = {}
  inputs = None
  ff_orders = {}
  for g in GROUP_NAMES:
    try:
      sim = SymSim(mk(name)(), group=g)
    except core.Unsupported: raise
    except Exception as e:
      res['note'] = f"group {g}: not elaborable/schedulable: {type(e).__name__}: {str(e)[:80]}"; res['verdict'] = 'rejected'
      return res.r
    top = sim.top
    ff_orders[g] = [repr(top.get_update_block_host_component(f)) + '.' + f.__name__ for f in top.get_all_update_ff()]
    ins = sorted(c.name for c in sim.cells if any(n.count('.') == 1 and '[' not in n.split('.')[1][:0] for n in [c.name]) and _is_top_input(sim, c))

    def run(sim=sim, top=top, ins=ins):
      v = sim.symbolic_state(); probe.update(v)
      trace = []
      for t in range(K):
        for n in ins:
          if n == 's.clk': continue
          sim.set(n, z3.BitVec(f"{n}@{t}", sim.by_name[n].nbits))
        if t % 2 == 0:
          top.sim_eval_combinational(); trace.append(sim.state_terms())
        top.sim_tick(); trace.append(sim.state_terms())      # odd cycles: inputs change and the clock ticks with no explicit evaluation in between
      return trace
    ex = Explorer(max_paths=64)
    runs[g] = [(pc, tr, exc) for pc, tr, exc in ex.paths(run)]
    res['states'] += len(runs[g]); res['transitions'] += sum(len(p) for p, _, _ in runs[g])
    inputs = ins
  base = GROUP_NAMES[0]
  for g in GROUP_NAMES[1:]:
    for pa, ta, ea in runs[base]:
      for pb, tb, eb in runs[g]:
        if prove(pa + pb, z3.BoolVal(False))[0] != 'sat': continue       # not jointly satisfiable
        res['obligations'] += 1
        if (ea is None) != (eb is None):
          goal = z3.BoolVal(False)
        elif ea is not None:
          goal = z3.BoolVal(type(ea) is type(eb))
        else:
          goal = z3.And(*[x[n] == y[n] for x, y in zip(ta, tb) for n in x if n in y and n != 's.clk'])
        v, m = prove(pa + pb, goal)
        if v == 'unsat': res['discharged'] += 1
        elif v == 'sat':
          gv = lambda x: m.eval(x, model_completion=True).as_long()
          state = {n: gv(x) for n, x in probe.items()}
          cycles = [{n: gv(z3.BitVec(f"{n}@{t}", probe[n].size())) for n in inputs if n != 's.clk'} for t in range(K)]
          res['violations'].append(dict(key=f"groups:{kname}:{base}/{g}", what=f"{res['name']} [{kname}]: pass groups {base} and {g} disagree",
                                        replay=REPLAY_GROUPS % dict(name=name, ga=base, gb=g, state=state, cycles=cycles, ffo={base: ff_orders.get(base), g: ff_orders.get(g)})))
        else: res['inconclusive'].append(f"{base}/{g}: solver unknown")
  res['twins_expected'] = 0
  res['distinct'].append(res['name'])
  res['note'] = f"{K} cycles, groups {list(GROUP_NAMES)}"
  res['samples'].append({'design': name, 'cycles': K, 'inputs': inputs})
  return res.r


def _is_top_input(sim, c):
  from pymtl3.dsl import InPort
  for sig in sim.top._dsl.all_signals:
    if isinstance(sig, InPort) and sig.is_top_level_signal() and sig.get_host_component() is sim.top:
      if repr(sig) in c.names or any(n.startswith(repr(sig) + '.') or n.startswith(repr(sig) + '[') for n in c.names):
        return True
  return False


def dispatch(it):
  return {'sched': item_sched, 'groups': item_groups}[it['kind']](it)


def corpus(tier, seed):
  from corpus import sched_designs, tv_designs
  from checks_designs import FF_NAMES
  shapes = [n for n in sched_designs.names() if n.startswith('shape:')]
  hand = [n for n in sched_designs.names() if n.startswith('hand:') and n not in sched_designs.INVERTING]
  ff = ['ff:' + n if not n.startswith('stdlib:') else n for n in FF_NAMES]
  std = ['stdlib:PipeQueueRTL2', 'stdlib:NormalQueueRTL1', 'stdlib:StreamBypassQueue2', 'stdlib:RoundRobinArbiter4', 'ex:ChecksumRTL',
         'x:Grid2D', 'x:NestedStruct', 'x:StructArr2DBehav', 'x:DescLoop']
  if tier == 'quick':
    rng = random.Random(seed)
    # every third-of-the-corpus slice rotates with VERIF_SEED; the whole set is covered by the thorough tier
    pass      # all shapes: the schedule queries are cheap
  return shapes, hand, ff, std


def main():
  tier = sys.argv[1] if len(sys.argv) > 1 else 'quick'
  chk = Check('C01', tier)
  shapes, hand, ff, std = corpus(tier, chk.seed)
  K = 3 if tier == 'quick' else 5
  items = []
  for n in std + ff + hand: items.append(dict(kind='groups', name=n, K=K))
  for n in std + ff + hand + shapes: items.append(dict(kind='sched', name=n))
  for n in (shapes[::4] if tier == 'quick' else shapes): items.append(dict(kind='groups', name=n, K=1))
  if tier == 'thorough': items.append(dict(kind='sched', name='ex:ProcRTL'))
  for it, r in pmap(dispatch, items, item_timeout=900 if tier == 'quick' else 3600):
    chk.absorb(it, r)
  chk.bounds = dict(cycles=K, designs=len(set(i['name'] for i in items)), direct_all_orders_up_to_blocks=9,
                    corpus='corpus/sched_designs.py (write shape x read shape x connection shape over Bits/struct/nested struct, 330 designs; quick: a third chosen by VERIF_SEED) + hand-written + ff corpus + stdlib')
  chk.outside = ['designs with method ports / update_once (CL/FL)', 'tie-breaks of HeuristicTopoPass other than the one realised (covered by the all-orders query on the same constraint set)',
                 'designs outside the corpus']
  chk.assumptions = ['block summaries are taken from a fully symbolic state: every cell incl. stale wires', 'pre-state invariant _next == _uint for registers']
  chk.finish(rule="per design: (a) fixed-point obligation, (b) one all-linear-extensions query over position variables constrained by the real all_constraints "
                  "(pairwise commutation lemma above 9 blocks), (c) per pair of pass groups one obligation per jointly satisfiable path pair over all cells and steps")


if __name__ == '__main__':
  main()
