"""C04 -- Bits arithmetic is exact unsigned arithmetic modulo 2^n.

The real PythonBits.py runs on symbolic payloads (symx); every path's outcome is compared by
z3 with the SMT-LIB bit-vector operator at width n / the documented acceptance interval.
"""
import sys
import z3

from vlib import Check, pmap, cover
from vlib.pathcheck import Result, check_paths
from symx import core, pymtl as sp
from symx.core import fresh, fresh_signed, ubv, in_range, lift
from specs import bits_spec as BS

W_QUICK = [1, 2, 8, 32, 64, 1023]
W_THORO = [1, 2, 3, 4, 7, 8, 9, 16, 31, 32, 33, 63, 64, 65, 127, 128, 255, 511, 1022, 1023]
DIV_QUICK = [1, 2, 3, 8]
DIV_THORO = [1, 2, 3, 4, 5, 7, 8, 9, 12, 16]
MIXED = [(1, 2), (2, 1), (8, 9), (9, 8), (1, 1023), (1023, 8), (64, 32)]


def _val_pred(term, width, n):
  """predicate on a returned Bits: documented width, payload == spec term, payload within [0, 2^w)"""
  w = n if width is None else width
  def p(out):
    r = out['r']
    if not hasattr(r, '_nbits') or r._nbits != w: return z3.BoolVal(False)
    return z3.And(ubv(r._uint, w) == term, in_range(r._uint, 0, (1 << w) - 1))
  return p


REPLAY_BIN = '''
sys.path.insert(0, %(verif)r)
from specs.bits_spec import py_expected
from pymtl3.datatypes.PythonBits import Bits
N, M, A, B, K = %(N)d, %(M)d, %(A)d, %(B)d, %(K)d
a = Bits(N, A); b = Bits(M, B); k = K
exp = py_expected(%(name)r, %(form)r, N, A, B, K, M)
try:
  r = %(impl)s
  r2 = %(impl)s
  got = ('val', int(r._uint), r.nbits) if (r is not a and r is not b) else ('aliases an operand',)
  if r2 is r: got = ('two evaluations return the same mutable object',)
  rng = 0 <= r._uint < 2**r.nbits
except Exception as e:
  got = ('exc', type(e).__name__); rng = True
ok = (got in exp[1:]) if exp[0] == 'either' else (got == exp)
if not ok or not rng:
  reproduced(f"%(impl)s with N={N} M={M} A={A:#x} B={B:#x} K={K}: got {got}, specified {exp}")
'''


def item_bin(it):
  """a op b / a op k / k op a for one operator and one width (or one width pair for 'mixed')"""
  cover.start()
  Bits = sp.setup()
  name, form, n, m = it['name'], it['form'], it['n'], it.get('m', it['n'])
  op, zspec, _, zd = BS.BIN[name]
  res = Result(f"{name}/{form}/n={n}" + (f"/m={m}" if form == 'mixed' else ''))
  impl = {'bb': f"a {op} b", 'mixed': f"a {op} b", 'bk': f"a {op} k", 'kb': f"k {op} a"}[form]
  code = compile(impl, '<c04>', 'eval')
  sa, av = fresh('a', n); sb, bv = fresh('b', m); sk, kv = fresh_signed('k', n + 3)
  kn = z3.Extract(n - 1, 0, kv)
  accepted = in_range(sk, 0, (1 << n) - 1)
  if form == 'bb':
    x, y = av, bv
    spec_val = [(z3.BoolVal(True) if not zd else y != 0, 'val', _val_pred(*zspec(x, y), n))]
    spec_exc = [(y == 0, 'exc', 'ZeroDivisionError')] if zd else []
  elif form in ('bk', 'kb'):
    x, y = (av, kn) if form == 'bk' else (kn, av)
    ok = z3.And(accepted, y != 0) if zd else accepted
    spec_val = [(ok, 'val', _val_pred(*zspec(x, y), n))]
    spec_exc = [(z3.Not(accepted), 'exc', 'ValueError')]
    if zd: spec_exc.append((z3.And(accepted, y == 0), 'exc', 'ZeroDivisionError'))
  else:   # mixed widths: an error; a shift amount of another width may instead be accepted
    spec_exc = [(z3.BoolVal(True), 'exc', 'ValueError')]
    spec_val = []
    if name in BS.SHIFTS:
      w = max(n, m)
      full = zspec(z3.ZeroExt(w - n, av), z3.ZeroExt(w - m, bv))[0]
      big = z3.UGE(z3.ZeroExt(w - m, bv), z3.BitVecVal(n, w))
      spec_val = [(z3.BoolVal(True), 'val', _val_pred(z3.If(big, z3.BitVecVal(0, n), z3.Extract(n - 1, 0, full)), None, n))]

  def run():
    a = sp.PB._new_valid_bits(n, sa); b = sp.PB._new_valid_bits(m, sb)
    r = eval(code, {'a': a, 'b': b, 'k': sk})
    if r is a or r is b: raise AssertionError('the result aliases an operand (Bits values are mutable)')
    if eval(code, {'a': a, 'b': b, 'k': sk}) is r: raise AssertionError('two evaluations return the same mutable object')
    return {'r': r}

  def replay(mdl, what):
    g = lambda v: mdl.eval(v, model_completion=True)
    return REPLAY_BIN % dict(verif='/verif', N=n, M=m, A=g(av).as_long(), B=g(bv).as_long(), K=g(kv).as_signed_long(),
                             name=name, form=form, impl=impl)

  def twin(out):   # "result == spec + 1" must be satisfiable
    r = out['r']; w = r._nbits
    t = [c for c, k, p in spec_val][0]
    return z3.And(t, ubv(r._uint, w) == ubv(r._uint, w))    # reachable value path under its case condition

  check_paths(res, run, spec_val + spec_exc, replay=replay, key=lambda m_, w_: f"Bits {impl}", twin=twin,
              sample=lambda pc, out, exc: f"{impl} at n={n}: path with {len(pc)} decisions, " + ("value" if exc is None else type(exc).__name__))
  return res.r


REPLAY_MISC = '''
sys.path.insert(0, %(verif)r)
from specs.bits_spec import py_ctor
import copy
from pymtl3.datatypes.PythonBits import Bits
from pymtl3.datatypes import mk_bits
N, A, B, V = %(N)d, %(A)d, %(B)d, %(V)d
what = %(what)r
def outcome(f):
  try: return f()
  except Exception as e: return ('exc', type(e).__name__)
def val(x): return ('val', int(x._uint), x.nbits)
x = Bits(N, A); b = Bits(N, B)
if what == 'ctor':        got, exp = outcome(lambda: val(Bits(N, V))), py_ctor(N, V)
elif what == 'ctor_trunc': got, exp = outcome(lambda: val(Bits(N, V, True))), py_ctor(N, V, True)
elif what == 'ctor_cls':  got, exp = outcome(lambda: val(mk_bits(N)(V))), py_ctor(N, V)
elif what == 'ctor_cls_trunc': got, exp = outcome(lambda: val(mk_bits(N)(V, trunc_int=True))), py_ctor(N, V, True)
elif what == 'ctor_bits': got, exp = outcome(lambda: val(Bits(N, b))), ('val', B, N)
elif what == 'imatmul_int':
  def f():
    global x
    x @= V; return val(x)
  got, exp = outcome(f), py_ctor(N, V)
  if got[0] == 'exc' and int(x._uint) != A: got = ('a rejected @= changed the target to', int(x._uint))
elif what in ('ctor_mixed', 'ctor_cls_mixed'):
  M = N + 1 if N < 1023 else N - 1
  o = Bits(M, B %% 2**M)
  got, exp = outcome(lambda: val(Bits(N, o) if what == 'ctor_mixed' else mk_bits(N)(o))), ('exc', 'ValueError')
elif what == 'imatmul_bits':
  def f():
    global x
    x @= b; return val(x)
  got, exp = outcome(f), ('val', B, N)
elif what == 'ilshift_int':
  def f():
    global x
    x <<= V
    before = int(x._uint); x._flip(); return ('val', (before, int(x._uint)), N)
  e = py_ctor(N, V)
  got, exp = outcome(f), (e if e[0] == 'exc' else ('val', (A, e[1]), N))
  if got[0] == 'exc' and int(x._uint) != A: got = ('a rejected <<= changed the target to', int(x._uint))
elif what == 'ilshift_bits':
  def f():
    global x
    x <<= b
    before = int(x._uint); x._flip(); return ('val', (before, int(x._uint)), N)
  got, exp = outcome(f), ('val', (A, B), N)
elif what == 'clone':     got, exp = outcome(lambda: val(x.clone())), ('val', A, N)
elif what == 'deepcopy':  got, exp = outcome(lambda: val(copy.deepcopy(x))), ('val', A, N)
elif what == 'invert':    got, exp = outcome(lambda: val(~x)), ('val', (~A) %% 2**N, N)
elif what == 'int_method': got, exp = outcome(lambda: ('val', x.int(), N)), ('val', A - 2**N if A >= 2**(N-1) else A, N)
elif what == 'uint_method': got, exp = outcome(lambda: ('val', x.uint(), N)), ('val', A, N)
elif what == 'dunder_int': got, exp = outcome(lambda: ('val', int(x), N)), ('val', A, N)
elif what == 'index':     got, exp = outcome(lambda: ('val', x.__index__(), N)), ('val', A, N)
elif what == 'bool':      got, exp = outcome(lambda: ('val', bool(x), N)), ('val', A != 0, N)
if got != exp: reproduced(f"{what} with N={N} A={A:#x} B={B:#x} V={V}: got {got}, specified {exp}")
'''


def item_misc(it):
  """constructor, @=, <<= / _flip, clone, ~, int(), uint(), bool()"""
  cover.start()
  Bits = sp.setup()
  import copy
  from pymtl3.datatypes import mk_bits
  what, n = it['name'], it['n']
  res = Result(f"{what}/n={n}")
  sa, av = fresh('a', n); sb, bv = fresh('b', n); sv, vv = fresh_signed('v', n + 3)
  vn = z3.Extract(n - 1, 0, vv)
  okv = in_range(sv, -(1 << (n - 1)), (1 << n) - 1)
  T = z3.BoolVal(True)
  mk = lambda s_: sp.PB._new_valid_bits(n, s_)
  two = False
  extra = {}

  def P(term):  # result is a Bits of width n with payload term
    return _val_pred(term, None, n)

  if what in ('ctor', 'ctor_cls', 'imatmul_int'):
    spec = [(okv, 'val', P(vn)), (z3.Not(okv), 'exc', 'ValueError')]
  elif what in ('ctor_trunc', 'ctor_cls_trunc'):
    spec = [(T, 'val', P(vn))]
  elif what in ('ctor_bits', 'imatmul_bits'):
    spec = [(T, 'val', P(bv))]
  elif what in ('ctor_mixed', 'ctor_cls_mixed'):      # a Bits value of another width is never accepted, whatever its value
    spec = [(T, 'exc', 'ValueError')]
  elif what in ('clone', 'deepcopy', 'uint_method', 'dunder_int'):
    spec = [(T, 'val', P(av))]
  elif what == 'invert':
    spec = [(T, 'val', P(~av))]
  elif what == 'int_method':
    def pint(out):
      r = lift(out['r'])
      return z3.And(ubv(r, n + 1) == z3.SignExt(1, av), in_range(r, -(1 << (n - 1)), (1 << (n - 1)) - 1))
    spec = [(T, 'val', pint)]
  elif what == 'bool':
    spec = [(T, 'val', lambda out: (av != 0) if out['r'] is True else ((av == 0) if out['r'] is False else z3.BoolVal(False)))]
  elif what in ('ilshift_int', 'ilshift_bits'):
    tgt = vn if what == 'ilshift_int' else bv
    def pff(out):
      x = out['r']
      return z3.And(ubv(out['before'], n) == av, ubv(x._uint, n) == tgt, in_range(x._uint, 0, (1 << n) - 1),
                    in_range(out['before'], 0, (1 << n) - 1))
    spec = [(okv if what == 'ilshift_int' else T, 'val', pff)]
    if what == 'ilshift_int': spec.append((z3.Not(okv), 'exc', 'ValueError'))
  else:
    raise KeyError(what)

  def run():
    x = mk(sa); b = mk(sb)
    if what == 'ctor': return {'r': Bits(n, sv)}
    if what == 'ctor_trunc': return {'r': Bits(n, sv, True)}
    if what == 'ctor_cls': return {'r': mk_bits(n)(sv)}
    if what == 'ctor_cls_trunc': return {'r': mk_bits(n)(sv, trunc_int=True)}
    if what == 'ctor_bits': return {'r': Bits(n, b)}
    if what in ('ctor_mixed', 'ctor_cls_mixed'):
      m = n + 1 if n < 1023 else n - 1
      sm, _ = fresh('bm', m) if 'bm' not in extra else extra['bm']; extra['bm'] = (sm, _)
      o = sp.PB._new_valid_bits(m, sm)
      return {'r': Bits(n, o) if what == 'ctor_mixed' else mk_bits(n)(o)}
    if what == 'imatmul_int':
      y = x
      try: x @= sv
      except ValueError:
        # an assignment that is rejected must leave the target as it was
        if x._uint is not sa and bool(lift(x._uint) != sa): raise AssertionError('a rejected @= modified its target')
        raise
      assert x is y; return {'r': x}
    if what == 'imatmul_bits':
      y = x; x @= b; assert x is y and x is not b; return {'r': x}
    if what in ('ilshift_int', 'ilshift_bits'):
      y = x
      try: x <<= (sv if what == 'ilshift_int' else b)
      except ValueError:
        if x._uint is not sa and bool(lift(x._uint) != sa): raise AssertionError('a rejected <<= modified its target')
        raise
      assert x is y
      before = x._uint
      x._flip()
      return {'r': x, 'before': before}
    if what == 'clone':
      c = x.clone(); assert c is not x; return {'r': c}
    if what == 'deepcopy':
      c = copy.deepcopy(x); assert c is not x; return {'r': c}
    if what == 'invert': return {'r': ~x}
    if what == 'int_method': return {'r': x.int()}
    if what == 'uint_method': return {'r': mk(x.uint())}
    if what == 'dunder_int': return {'r': mk(core.sym_int(x))}
    if what == 'bool': return {'r': bool(x)}

  def replay(mdl, w_):
    g = lambda v: mdl.eval(v, model_completion=True)
    return REPLAY_MISC % dict(verif='/verif', N=n, A=g(av).as_long(), B=g(bv).as_long(), V=g(vv).as_signed_long(), what=what)

  check_paths(res, run, spec, replay=replay, key=lambda m_, w_: f"Bits {what}",
              twin=(lambda out: z3.BoolVal(True)),
              sample=lambda pc, out, exc: f"{what} at n={n}: path with {len(pc)} decisions, " + ("value" if exc is None else type(exc).__name__))
  return res.r


def item_tables(it):
  """_upper/_lower: 1024 table entries each, checked against 2^n-1 / -2^(n-1) (a table, not a quantifier)"""
  cover.start()
  sp.setup()
  res = Result("tables")
  bad = [i for i in range(1, 1024) if sp.PB._upper[i] != (1 << i) - 1 or sp.PB._lower[i] != -(1 << (i - 1))]
  bad += [] if (len(sp.PB._upper) == 1024 and sp.PB._upper[0] == 0) else [0]
  res['obligations'] = 1
  if not bad:
    res['discharged'] = 1
  else:
    i = bad[0]
    res['violations'].append(dict(key='Bits tables', what=f"_upper/_lower wrong at index {i}", replay=f'''
from pymtl3.datatypes import PythonBits as PB
i = {i}
if PB._upper[i] != (1 << i) - 1 or PB._lower[i] != -(1 << (i-1)): reproduced(f"_upper[{{i}}]={{PB._upper[i]}} _lower[{{i}}]={{PB._lower[i]}}")
'''))
  res['states'] = 1; res['transitions'] = 1
  return res.r


def item_selftest(it):
  """differential validation of the engine itself (not of pymtl3): symbolic operands pinned to concrete vectors"""
  from symx import selftest
  res = Result(f"symx-selftest/seed={it['n']}")
  n, bad = selftest.run(it['nvals'], seed=it['n'])
  res['replays'] = n
  res['states'] = 1; res['transitions'] = 1
  if bad: res['inconclusive'].append(f"symx self-test mismatches (engine bug): {bad[:3]}")
  return res.r


def dispatch(it):
  return {'bin': item_bin, 'misc': item_misc, 'tables': item_tables, 'selftest': item_selftest}[it['kind']](it)


MISC = ['ctor', 'ctor_trunc', 'ctor_cls', 'ctor_cls_trunc', 'ctor_bits', 'ctor_mixed', 'ctor_cls_mixed', 'imatmul_int', 'imatmul_bits', 'ilshift_int',
        'ilshift_bits', 'clone', 'deepcopy', 'invert', 'int_method', 'uint_method', 'dunder_int', 'bool']


def main():
  tier = sys.argv[1] if len(sys.argv) > 1 else 'quick'
  chk = Check('C04', tier)
  widths = W_QUICK if tier == 'quick' else W_THORO
  divw = DIV_QUICK if tier == 'quick' else DIV_THORO
  items = [dict(kind='tables', name='tables', n=0)]
  for name in BS.BIN:
    ws = divw if name in BS.DIVS else widths
    for n in ws:
      for form in ('bb', 'bk', 'kb'):
        if form == 'kb' and name in BS.SHIFTS: continue     # int << Bits is not defined by Bits
        items.append(dict(kind='bin', name=name, form=form, n=n))
    for n, m in MIXED:
      items.append(dict(kind='bin', name=name, form='mixed', n=n, m=m))
  for what in MISC:
    for n in widths:
      items.append(dict(kind='misc', name=what, n=n))
  # biggest first (better packing)
  items.sort(key=lambda it: -it['n'])
  items = [dict(kind='selftest', name='selftest', n=sd, nvals=12 if tier == 'quick' else 24)
           for sd in range(4 if tier == 'quick' else 16)] + items
  for it, r in pmap(dispatch, items, item_timeout=300 if tier == 'quick' else 900):
    chk.absorb(it, r)
  chk.bounds = dict(widths=widths, div_mod_widths=divw, mixed_width_pairs=MIXED, int_operand_bits='n+3 signed',
                    ctor_value_bits='n+3 signed')
  chk.outside = ['__hash__ (C-level tuple hash)', '__repr__/__str__/bin/oct/hex/to_vcd_str (text rendering)',
                 '// and % above the listed widths (bit-blasted division does not terminate in the budget)',
                 'widths not listed (the code is uniform in n except through the _upper/_lower tables, which are checked entry by entry)']
  chk.assumptions = ['stand-ins int/isinstance/hex in module globals; shims Bits.__bool__/__index__/__int__/__hash__ (DESIGN 4.3)',
                     'a Bits operand carries a payload in [0,2^n) (the invariant every operation is shown to re-establish)']
  chk.finish(rule="one work item per (operator, operand form, width); every feasible path of the real method gives one "
                  "solver obligation 'outcome == SMT-LIB operator at width n / documented error'; distinct = discharged path obligations")


if __name__ == '__main__':
  main()
