"""C09 -- bit-overlap conflicts are rejected for ALL slice bounds.

A design is elaborated with placeholder slices; then the `_dsl.slice` of the slice signals is overwritten with
slice(SymInt lo, SymInt hi) and the REAL checkers run on the injected state:
  (a) two blocks write x[a:b], x[c:d]           -> _check_upblk_writes raises MultiWriterError iff the intervals intersect
  (a') same with a read-only third slice x[e:f] declared first (checker must not stop at the first overlapping sibling)
  (b) a block writes x[a:b], a net drives x[c:d] -> _resolve_value_connections raises iff they intersect
  (c) a block writes all of x, another x[c:d]    -> always raises
Port-direction rules, NoWriterError, connection loops, operator checks and the remaining two-driver shapes are decided
by classes and hierarchy positions -- there is no integer to make symbolic.  They are covered by finite RULE TABLES
(corpus/illegal_designs.py): every table entry, in several statement orders, is elaborated by the real code and the outcome
compared with the hand-written expectation (direct comparison, no solver).
"""
import os
import sys
import z3

from vlib import Check, pmap, cover, prove
from vlib.pathcheck import Result
from symx import core, pymtl as sp
from symx.core import Explorer

REPLAY = '''
from pymtl3 import *
from pymtl3.dsl.errors import MultiWriterError
case, n, A, B, C, D, E, F = %(case)r, %(n)d, %(A)d, %(B)d, %(C)d, %(D)d, %(E)d, %(F)d
inter = max(A, C) < min(B, D)
class T(Component):
  def construct(s):
    s.in_ = InPort(n); s.x = Wire(n); s.out = OutPort(n); s.d = InPort(D - C); s.r = OutPort(max(F - E, 1))
    if case == 'W2R':
      @update
      def upR(): s.r @= s.x[E:F]
    if case in ('W2', 'W2R', 'WN'):
      @update
      def upA(): s.x[A:B] @= s.in_[A:B]
    if case in ('W2', 'W2R'):
      @update
      def upB(): s.x[C:D] @= s.in_[C:D]
    if case == 'WN': s.x[C:D] //= s.d
    if case == 'WW':
      @update
      def upA(): s.x @= s.in_
      @update
      def upB(): s.x[C:D] @= s.in_[C:D]
    @update
    def upO(): s.out @= s.x
try:
  T().elaborate(); raised = False
except MultiWriterError: raised = True
expect = True if case == 'WW' else inter
if raised != expect:
  reproduced(f"{case}: slices [{A}:{B}] and [{C}:{D}]" + (f" (read-only slice [{E}:{F}] declared first)" if case == 'W2R' else '') + f" of a {n}-bit wire: MultiWriterError {'raised' if raised else 'not raised'}, the bit ranges {'do' if expect else 'do not'} conflict")
'''


def item(it):
  cover.start()
  import warnings; warnings.filterwarnings('ignore')
  import pymtl3.dsl.Connectable as CN
  from pymtl3.dsl.errors import MultiWriterError
  from corpus import inject_designs
  n, case = it['n'], it['case']
  res = Result(f"{case}/n={n}")
  sp.setup((CN,))
  Wd = n.bit_length() + 1
  a, b, c, d, e, f = [z3.BitVec(x, Wd) for x in 'abcdef']
  S = lambda v: core.from_bv(v)
  pre = [z3.ULT(a, b), z3.ULE(b, n), z3.ULT(c, d), z3.ULE(d, n), z3.Or(a != c, b != d)]
  if case == 'W2R': pre += [z3.ULT(e, f), z3.ULE(f, n), z3.Or(e != a, f != b), z3.Or(e != c, f != d)]
  inter = z3.And(z3.ULT(a, d), z3.ULT(c, b))
  mod = inject_designs.module()
  top = getattr(mod, case)(n)
  try:
    top.elaborate()
  except MultiWriterError:
    if case != 'WW': raise          # WW is illegal for every slice: elaboration stops in the very check under test, metadata is complete
  if case == 'W2R': sr, sa, sb = top.x[2:3], top.x[0:1], top.x[1:2]
  else: sa, sb = top.x[0:1], top.x[1:2]

  def run():
    sa._dsl.slice = slice(S(a), S(b)); sb._dsl.slice = slice(S(c), S(d))
    if case == 'W2R': sr._dsl.slice = slice(S(e), S(f))
    try:
      if case == 'WN':
        top._resolve_value_connections()
      else:
        top._check_upblk_writes()
      return False
    except MultiWriterError:
      return True
  expect = z3.BoolVal(True) if case == 'WW' else inter
  ex = Explorer(base_pc=pre, max_paths=2000)
  for pc, raised, exc in ex.paths(run):
    res['states'] += 1; res['transitions'] += len(pc); res['obligations'] += 1
    goal = z3.BoolVal(False) if exc is not None else (z3.BoolVal(bool(raised)) == expect)
    v, m = prove(pre + pc, goal)
    if v == 'unsat':
      res['discharged'] += 1; res['distinct'].append(f"{res['name']}#{res['states']}")
    elif v == 'sat':
      g = lambda x: m.eval(x, model_completion=True).as_long()
      res['violations'].append(dict(key=f"multiwriter:{case}", what=f"{res['name']}: conflict detection wrong for slices [{g(a)}:{g(b)}] / [{g(c)}:{g(d)}]" + (f" ({type(exc).__name__}: {exc})" if exc else ''),
                                    replay=REPLAY % dict(case=case, n=n, A=g(a), B=g(b), C=g(c), D=g(d), E=g(e) if case == 'W2R' else 0, F=g(f) if case == 'W2R' else 1)))
    else: res['inconclusive'].append("solver unknown")
  res['twins_expected'] = 1
  res['twins_sat'] = 1 if (case == 'WW' or (prove(pre, z3.Not(inter))[0] == 'sat' and prove(pre, inter)[0] == 'sat')) else 0
  res['samples'].append(f"{res['name']}: all slice bounds symbolic ({Wd}-bit), {res['states']} paths of the real checker")
  return res.r


REPLAY_RULE = '''
sys.path.insert(0, '/verif')
import os; os.environ['VERIF_ORDERS'] = %(nord)r
from corpus import illegal_designs as ID
i, expected = %(i)d, %(exp)r
fam, name, oi, cn, exp, mid = ID.index()[i]
junk = []
for attempt in range(12):          # elaboration walks sets of freshly allocated objects: an outcome may depend on their order
  got = ID.outcome(i)
  ok = (got is None and expected is None) or (expected is not None and got in expected.split('|'))
  if not ok: break
  junk.append([object() for _ in range(41 * (attempt + 1))])
if not ok:
  reproduced(f"{fam} / {name} (statement order {oi}: {mid}): elaboration " + (f"raised {got}" if got else "succeeded") + ", the rules demand " + (expected or "a legal design"))
'''


def item_rules(it):
  """finite rule tables (port rules for blocks and connections, nets without driver, connection loops, assignment
  operators, two drivers): every case in several statement orders, outcome against the hand-written expectation"""
  cover.start()
  from corpus import illegal_designs as ID
  res = Result(f"rules/{it['family']}")
  for i, (fam, name, oi, cn, exp, mid) in enumerate(ID.index()):
    if fam != it['family']: continue
    res['obligations'] += 1; res['states'] += 1
    got = ID.outcome(i)
    ok = (got is None and exp is None) or (exp is not None and got in exp.split('|'))
    if ok:
      res['discharged'] += 1
      if oi == 0: res['distinct'].append(f"{fam}/{name}")
    else:
      res['violations'].append(dict(key=f"rule:{fam}:{name}:{'accepted' if got is None else got}",
                                    what=f"{fam} / {name} (order {oi}): elaboration {'raised ' + got if got else 'succeeded'}, the rules demand {exp or 'a legal design'}",
                                    replay=REPLAY_RULE % dict(i=i, exp=exp, nord=os.environ.get('VERIF_ORDERS', '6'))))
  res['transitions'] = res['states']
  res['twins_expected'] = 0
  res['samples'].append(f"{res['name']}: {res['obligations']} designs (cases x statement orders)")
  return res.r


def dispatch(it):
  return item_rules(it) if it.get('kind') == 'rules' else item(it)


def main():
  tier = sys.argv[1] if len(sys.argv) > 1 else 'quick'
  chk = Check('C09', tier)
  if tier == 'thorough': os.environ['VERIF_ORDERS'] = '24'
  items = []
  for n in ([8, 64] if tier == 'quick' else [8, 64, 1023]):
    for case in ('W2', 'W2R', 'WN', 'WW'):
      items.append(dict(name=f"{case}{n}", case=case, n=n))
  from corpus import illegal_designs as ID
  for fam in sorted({c[0] for c in ID.CASES}): items.append(dict(name=f"rules:{fam}", kind='rules', family=fam))
  for it, r in pmap(dispatch, items, item_timeout=900):
    chk.absorb(it, r)
  chk.bounds = dict(widths=[8, 64] + ([1023] if tier == 'thorough' else []), bounds='all 0 <= lo < hi <= n for both (three) slices')
  chk.bounds['rule_tables'] = 'port rules for update blocks (3 signal kinds x own/child/grandchild x read/write/ff-write), for connections (18 writer/reader placements x both statement directions), nets without driver, connection loops, assignment operators (6 operators x update/update_ff, temporaries, slices, fields), two drivers (20 shapes); every case in up to 6 statement orders'
  chk.outside = ['rule cases outside the tables (method ports, interfaces, placeholders)', 'designs deeper than four hierarchy levels']
  chk.assumptions = ['symbolic slice objects injected into _dsl.slice after elaboration: the checkers use slices only through _overlap and identity-keyed dictionaries']
  chk.finish(rule="per (case, width): every path of the real _check_upblk_writes / _resolve_value_connections on injected symbolic slices: raises MultiWriterError iff the bit ranges intersect; rule tables (no integer to make symbolic; every table entry x statement order is elaborated and compared with the hand-written outcome: the demanded error class, or a clean elaboration)")


if __name__ == '__main__':
  main()
