"""C18 -- magic memories act as one in-order memory whatever the timing parameters.

The library's own TestSrcCL -> MagicMemoryCL (StallCL, DelayPipe*CL, MagicMemoryFL, byte-array helpers) -> TestSinkCL
harness runs in fork mode.  Per request the type (within a family), address (any alignment inside a 16-byte window),
length, data and opaque field are symbolic; every stall decision is an arbitrary boolean (Random replaced by a stub);
the byte store is a z3 Array.  Expected responses and the final image come from a sequential byte-array specification;
the real TestSinkCL comparison is the assertion.
"""
import sys
import z3

from vlib import Check, pmap, cover, prove
from vlib.pathcheck import Result
from symx import core, pymtl as sp
from symx.core import SymInt, SymBool, lift
from specs import mem_spec as MS

WINDOW = 16

REPLAY = '''
sys.path.insert(0, '/verif')
import warnings; warnings.filterwarnings('ignore')
from checks.c18 import concrete_run
msg = concrete_run(%(nports)d, %(lat)d, %(sink_delay)d, %(reqs)r, %(init)r, %(variant)r, %(dws)r, %(scripts)r, %(mem_nbytes)r)
if msg: reproduced(msg)
'''


class ArrayBytes:
  """stand-in for the bytearray behind MagicMemoryFL: a z3 Array(BV32 -> BV8); index may be int or SymInt"""
  def __init__(s, n, arr): s.n = n; s.arr = arr
  def __len__(s): return s.n
  def _idx(s, i):
    i = lift(i); return z3.Extract(31, 0, i.e) if i.w >= 32 else z3.SignExt(32 - i.w, i.e)
  def __getitem__(s, i): return SymInt(z3.ZeroExt(1, z3.Select(s.arr, s._idx(i))), True)
  def __setitem__(s, i, v):
    if hasattr(v, '_uint'): v = v._uint
    v = lift(v); b = z3.Extract(7, 0, v.e) if v.w >= 8 else z3.SignExt(8 - v.w, v.e)
    s.arr = z3.Store(s.arr, s._idx(i), b)


class SymStall:
  """nondeterministic Random: `random() > p` is an arbitrary boolean; at most `budget` stalls so that every path ends"""
  def __init__(s, tag, budget=2): s.tag = tag; s.n = 0; s.stalls = 0; s.budget = budget
  def random(s):
    s.n += 1; b = z3.Bool(f"stall_{s.tag}_{s.n}")
    me = s
    class R:
      val = None
      def __gt__(self, o):          # one decision per drawn number, however often it is compared (rdy and val paths both compare it)
        if self.val is None:
          if me.stalls >= me.budget: self.val = True
          else:
            self.val = bool(SymBool(b))
            if not self.val: me.stalls += 1
        return self.val
    return R()


class ScriptedStall:
  """replay: the stall decisions of the solver's model, in draw order (True = not stalled); afterwards never stalls.
  Every finite pattern has positive probability for 0 < stall_prob < 1, so this is one possible random outcome."""
  def __init__(s, script): s.script = list(script); s.i = 0
  def random(s):
    v = s.script[s.i] if s.i < len(s.script) else True
    s.i += 1
    return 1.0 if v else 0.0


def _install_scripted(th, variant, scripts):
  if variant == 'cl':
    for i, st in enumerate(th.mem.req_stalls): st.stall_rgen = ScriptedStall(scripts[i] if i < len(scripts) else [])
  else:
    for i, st in enumerate(th.mem.req_stalls):
      blk = [b for b in st._dsl.upblks if b.__name__ == 'up_rand'][0]
      k = blk.__code__.co_freevars.index('stall_rgen')
      blk.__closure__[k].cell_contents = ScriptedStall(scripts[i] if i < len(scripts) else [])


def _classes(dw=32):
  from pymtl3.stdlib.mem.MemMsg import mk_mem_msg
  return mk_mem_msg(8, 32, dw)


def _lw(dw): return (dw // 8 - 1).bit_length()      # width of the len field


def _harness_rtl(nports, src_msgs, sink_msgs, lat, sink_delay, stall_prob, dws=None, mem_nbytes=None):
  """the stream (val/rdy, RTL-interface) variant: SourceRTL -> MagicMemoryRTL (RandomStall, InelasticDelayPipe) -> SinkRTL"""
  from pymtl3 import Component
  from pymtl3.stdlib.stream.SourceRTL import SourceRTL
  from pymtl3.stdlib.stream.SinkRTL import SinkRTL
  from pymtl3.stdlib.stream.magic_memory import MagicMemoryRTL
  cls = [_classes(dw) for dw in (dws or [32] * nports)]

  class THR(Component):
    def construct(s):
      s.srcs = [SourceRTL(cls[i][0], src_msgs[i], 0, 0) for i in range(nports)]
      s.mem = MagicMemoryRTL(nports, cls, stall_prob, lat, **({'mem_nbytes': mem_nbytes} if mem_nbytes else {}))
      s.sinks = [SinkRTL(cls[i][1], sink_msgs[i], 0, sink_delay) for i in range(nports)]
      for i in range(nports):
        s.srcs[i].send //= s.mem.ifc[i].req
        s.mem.ifc[i].resp //= s.sinks[i].recv
    def done(s): return all(x.done() for x in s.srcs) and all(x.done() for x in s.sinks)
  return THR()


def _install_stalls(th, variant, budget=2):
  if variant == 'cl':
    for i, st in enumerate(th.mem.req_stalls): st.stall_rgen = SymStall(i, budget)
  else:
    for i, st in enumerate(th.mem.req_stalls):
      blk = [b for b in st._dsl.upblks if b.__name__ == 'up_rand'][0]
      k = blk.__code__.co_freevars.index('stall_rgen')
      blk.__closure__[k].cell_contents = SymStall(i, budget)


def _harness(nports, src_msgs, sink_msgs, lat, sink_delay, stall_prob, variant='cl', keep=None, dws=None, mem_nbytes=None):
  """keep: list that receives (response object, expected) for every response the CL sinks accept -- the consumer KEEPS the
  objects it was handed, so that a later modification of a delivered response is seen"""
  if variant == 'rtl': return _harness_rtl(nports, src_msgs, sink_msgs, lat, sink_delay, stall_prob, dws, mem_nbytes)
  if keep is None: keep = []
  def cmp_keep(a, b):
    keep.append((a, b)); return a == b
  from pymtl3 import Component, connect
  from pymtl3.stdlib.mem.MagicMemoryCL import MagicMemoryCL
  from pymtl3.stdlib.test_utils import TestSinkCL, TestSrcCL
  cls = [_classes(dw) for dw in (dws or [32] * nports)]

  class TH(Component):
    def construct(s):
      s.srcs = [TestSrcCL(cls[i][0], src_msgs[i]) for i in range(nports)]
      s.mem = MagicMemoryCL(nports, cls, stall_prob, lat, **({'mem_nbytes': mem_nbytes} if mem_nbytes else {}))
      s.sinks = [TestSinkCL(cls[i][1], sink_msgs[i], 0, sink_delay, cmp_fn=cmp_keep) for i in range(nports)]
      for i in range(nports):
        connect(s.srcs[i].send, s.mem.ifc[i].req)
        connect(s.mem.ifc[i].resp, s.sinks[i].recv)
    def done(s): return all(x.done() for x in s.srcs) and all(x.done() for x in s.sinks)
  return TH()


def concrete_run(nports, lat, sink_delay, reqs, init, variant='cl', dws=None, stall_scripts=None, mem_nbytes=None):
  """replay on the pristine library: reqs[port] = [(type, addr, len, data, opaque)], init = {addr: byte}.
  Tries stall probability 0 and 0.5 (stall decisions may only change WHEN responses arrive)."""
  from pymtl3 import DefaultPassGroup
  dws = dws or [32] * nports
  cls = [_classes(dw) for dw in dws]
  order = [(p, r) for k in range(max(len(x) for x in reqs)) for p, x in enumerate(reqs) for r in ([x[k]] if k < len(x) else [])]
  for prob in ((0, 0.5) if not stall_scripts else (0.5, 0, 0.5)):
    mem = dict(init)
    # the memory processes port 0 before port 1 in each cycle; with equal arrival this is request-index major order
    exp = [[] for _ in range(nports)]
    for p, (t, a, l, d, o) in order:
      rl, rd = MS.py_step(mem, t, a, l, d, dws[p])
      exp[p].append(cls[p][1](t, o, 0, rl, rd))
    keep = []
    th = _harness(nports, [[cls[p][0](t, o, a, l, d) for (t, a, l, d, o) in x] for p, x in enumerate(reqs)], exp, lat, sink_delay, prob, variant, keep, dws, mem_nbytes)
    th.elaborate()
    for a, b in init.items():
      if a < len(th.mem.mem.mem): th.mem.mem.mem[a] = b
    if stall_scripts and prob == 0.5:
      _install_scripted(th, variant, stall_scripts); stall_scripts = None      # first round: the model's stall decisions; later rounds: the library's own generator
    th.apply(DefaultPassGroup())
    n = 0
    try:
      th.sim_reset()            # a cycle-level harness already sends requests during the reset cycles
      while not th.done() and n < 200: th.sim_tick(); n += 1
    except Exception as e:
      return f"MagicMemory{variant.upper()} nports={nports} latency={lat} sink_delay={sink_delay} stall_prob={prob} requests {reqs}: {type(e).__name__}: {str(e)[:300]}"
    if not th.done(): return f"MagicMemoryCL nports={nports} latency={lat} sink_delay={sink_delay} stall_prob={prob}: not all responses arrived after {n} cycles"
    for got, want in keep:
      if got != want: return f"MagicMemory{variant.upper()} nports={nports} latency={lat} sink_delay={sink_delay} stall_prob={prob} requests {reqs}: a response the consumer had accepted as {want} reads {got} at the end of the run (the delivered object was modified afterwards)"
    for a in sorted(x for x in set(mem) | set(init) if x < len(th.mem.mem.mem)):
      if th.mem.mem.mem[a] != mem.get(a, 0): return f"final image byte {a:#x} = {th.mem.mem.mem[a]:#x}, sequential specification {mem.get(a, 0):#x} (requests {reqs})"
  return None


def item_mem(it):
  cover.start()
  import warnings; warnings.filterwarnings('ignore')
  from symx.forkx import ForkExplorer
  import pymtl3.extra.pypy.fast_bytearray_funcs as FB
  import pymtl3.stdlib.mem.MagicMemoryCL as _x   # noqa (package attribute of this name is the class)
  MCLm = sys.modules['pymtl3.stdlib.mem.MagicMemoryCL']; MFLm = sys.modules['pymtl3.stdlib.mem.MagicMemoryFL']
  Bits = sp.setup((FB, MCLm, MFLm))
  MFLm.read_bytearray_bits = FB.read_bytearray_bits; MFLm.write_bytearray_bits = FB.write_bytearray_bits
  from pymtl3 import DefaultPassGroup
  fam, nreq, lat, nports, sink_delay, stalls = it['family'], it['nreq'], it['lat'], it['nports'], it['sink_delay'], it['stalls']
  variant = it.get('variant', 'cl')
  dws = it.get('dws') or [32] * nports
  cls = [_classes(dw) for dw in dws]
  import pymtl3.stdlib.stream.magic_memory as SMM
  core.install(SMM.__dict__)
  name = f"mem-{variant}/{fam}/ports={nports}/reqs={nreq}/lat={lat}/sinkdelay={sink_delay}/stalls={'sym' if stalls else 'none'}" + (f"/data_widths={dws}" if it.get('dws') else '') + (f"/mem_nbytes={it['mem_nbytes']}" if it.get('mem_nbytes') else '')
  res = Result(name)
  types = MS.FAMILIES[fam]
  V = []      # per port list of (t, a, l, d, o)
  cons = []
  for p in range(nports):
    vs = []
    for i in range(nreq):
      tag = f"p{p}r{i}"
      t = z3.BitVec(tag + '_type', 4); a = z3.BitVec(tag + '_addr', 32); l = z3.BitVec(tag + '_len', _lw(dws[p])); d = z3.BitVec(tag + '_data', dws[p]); o = z3.BitVec(tag + '_opq', 8)
      vs.append((t, a, l, d, o))
      cons.append(z3.Or(*[t == x for x in types]))
      cons.append(z3.ULT(a, WINDOW - (dws[p] // 8 - 1)))
      cons.append(z3.Implies(z3.Or(*[t == x for x in MS.AMOS]), l == 0))        # atomics are word operations
      if it.get('len0'): cons.append(l == 0)                                   # deep-interleaving configurations: full-width accesses only
    V.append(vs)
  arr0 = z3.Array('mem0', z3.BitVecSort(32), z3.BitVecSort(8))
  # specification: the memory processes port 0 before port 1 each cycle; with both sources offering from cycle 0 and
  # identical timing the processing order is request-index major (also OBSERVED below through the read/write log)
  order = [(p, i) for i in range(nreq) for p in range(nports)]
  holder = {}

  def body():
    def mk(cls, **kw):
      m = cls()
      for k, v in kw.items(): getattr(m, k)._uint = v if isinstance(v, int) else core.from_bv(v)
      return m
    srcs = [[mk(cls[p][0], type_=t, opaque=o, addr=a, len=l, data=d) for (t, a, l, d, o) in V[p]] for p in range(nports)]
    # expected stream: the specification applied in the specified processing order (must exist BEFORE the sinks are built:
    # a sink constructed with an empty list reports done at once)
    arr = arr0; exp = [[] for _ in range(nports)]
    for p, i in order:
      t, a, l, d, o = V[p][i]
      arr, rlen, rdata = MS.z3_step(arr, t, a, l, d, dws[p])
      exp[p].append(mk(cls[p][1], type_=t, opaque=o, test=0, len=rlen, data=rdata))
    keep = []
    th = _harness(nports, srcs, exp, lat, sink_delay, 0.5 if stalls else 0, variant, keep, dws, it.get('mem_nbytes'))
    th.elaborate()
    store = ArrayBytes(it.get('mem_nbytes') or (1 << 20), arr0)
    th.mem.mem.mem = store
    if stalls: _install_stalls(th, variant, it.get('stall_budget', 2))
    th.apply(DefaultPassGroup()); th.sim_reset()
    n = 0
    while not th.done() and n < 60 + 20 * nreq * (lat + sink_delay + 2): th.sim_tick(); n += 1
    for got, want in keep:      # the consumer kept the objects it was handed: they must still read what was accepted
      if not bool(got == want): raise AssertionError("a response object handed to the consumer was modified afterwards")
    return th, n, store.arr, arr

  def leaf(pc, out, exc):
    rec = dict(obligations=1, discharged=0, violations=[], inconclusive=[], decisions=len(pc))
    full = cons + pc
    def viol(what, extra=(), speculative=False):
      sv = z3.Solver(); sv.add(*full, *extra)
      if sv.check() != z3.sat:
        if not speculative: rec['inconclusive'].append(f"{what}: path condition not satisfiable?")
        return
      m = sv.model(); g = lambda x: m.eval(x, model_completion=True).as_long()
      reqs = [[(g(t), g(a), g(l), g(d), g(o)) for (t, a, l, d, o) in V[p]] for p in range(nports)]
      init = {k: g(z3.Select(arr0, z3.BitVecVal(k, 32))) for k in range(WINDOW + 8)}
      scripts = []
      if stalls:
        for p in range(nports):
          k = 1; sc = []
          while k <= 400:
            sc.append(not z3.is_false(m.eval(z3.Bool(f"stall_{p}_{k}")))); k += 1
          while sc and sc[-1]: sc.pop()
          scripts.append(sc)
      rec['violations'].append(dict(key=f"MagicMemory{variant.upper()}:{fam}", what=f"{name}: {what}", speculative=speculative,
                                    replay=REPLAY % dict(nports=nports, lat=lat, sink_delay=sink_delay, reqs=reqs, init=init, variant=variant, dws=dws, scripts=scripts, mem_nbytes=it.get('mem_nbytes'))))
    if exc is not None:
      # an exception may stem from the byte-store stand-in (no buffer protocol): propose models with every address
      # alignment first (speculative: kept only if the replay on the real code reproduces), then the plain model
      alla = [v[1] for vs in V for v in vs]
      distinct = [z3.Select(arr0, z3.BitVecVal(j, 32)) == 17 * j + 1 for j in range(WINDOW + 4)] + [v[3] == (0x8877665511223344 + 0x01010101 * n_) % (1 << v[3].size()) for n_, v in enumerate(v for vs in V for v in vs)]
      for k in (1, 2, 3, 0): viol(f"{type(exc).__name__}: {str(exc)[:200]}", [z3.Extract(1, 0, a) == k for a in alla] + distinct, speculative=True)
      # ... and boundary data (carries out of the word, sign boundaries) on an all-ones memory, same address for every request
      ones = [z3.Select(arr0, z3.BitVecVal(j, 32)) == 0xff for j in range(WINDOW + 8)]
      same = [a == alla[0] for a in alla[1:]]
      for dv in (1, -1, 1 << 31):
        for ty in [t_ for t_ in (MS.AMO_ADD, MS.AMO_MIN, MS.WRITE) if t_ in types]:
          allv = [v for vs in V for v in vs]
          for sel in [allv] + [[v] for v in allv]:        # the path condition may already pin some request types: also try one request at a time
            viol(f"{type(exc).__name__}: {str(exc)[:200]}", ones + same + [v[3] == z3.BitVecVal(dv, v[3].size()) for v in allv] + [v[0] == ty for v in sel], speculative=True)
      viol(f"{type(exc).__name__}: {str(exc)[:200]}"); return rec
    th, n, got, want = out
    if not th.done(): viol(f"responses missing after {n} cycles"); return rec
    if any(sk.idx != nreq for sk in th.sinks): viol("a sink reports done without having compared every response (vacuous run)"); return rec
    i = z3.BitVec('probe', 32)
    rec['obligations'] += 1
    r, mdl = prove(full, z3.Select(got, i) == z3.Select(want, i))
    if r == 'unsat': rec['discharged'] += 2
    elif r == 'sat': viol("final memory image differs from the sequential specification", [z3.Select(got, i) != z3.Select(want, i)])
    else: rec['inconclusive'].append("image: solver unknown")
    rec['sample'] = f"{name}: path with {len(pc)} decisions (type decode, lengths, stall decisions), {n} cycles"
    return rec

  fx = ForkExplorer(base_pc=cons, leaf=leaf, max_paths=it.get('max_paths', 30000))
  recs = fx.run(body)
  for r in recs:
    if 'error' in r: res['inconclusive'].append(r['error']); continue
    res['states'] += 1; res['transitions'] += r['decisions']
    res['obligations'] += r['obligations']; res['discharged'] += r['discharged']
    res['inconclusive'] += r['inconclusive']
    if r['violations'] and len(res['violations']) < 2: res['violations'] += r['violations']
    if not res['samples'] and 'sample' in r: res['samples'].append(r['sample'])
  res['distinct'] = [f"{name}#{i}" for i in range(res['states'])]
  res['stats'] = {'solver_checks': sum(r.get('_stats', {}).get('solver_checks', 0) for r in recs),
                  'solver_s': round(sum(r.get('_stats', {}).get('solver_s', 0) for r in recs), 3), 'paths': len(recs)}
  res['note'] = f"{len(recs)} paths"
  return res.r


def main():
  tier = sys.argv[1] if len(sys.argv) > 1 else 'quick'
  chk = Check('C18', tier)
  items = []
  def add(**kw):
    assert not (kw.get('nports', 1) > 1 and kw.get('stalls')), 'two ports are only specified for equal timing (no stalls)'
    items.append(dict(name='/'.join(f"{k}={v}" for k, v in kw.items()), **kw))
  if tier == 'quick':
    add(family='rw', nreq=2, lat=1, nports=1, sink_delay=0, stalls=True)
    add(family='rw', nreq=2, lat=0, nports=1, sink_delay=2, stalls=False)
    add(family='rw', nreq=1, lat=3, nports=2, sink_delay=0, stalls=False)
    add(family='amo_arith', nreq=2, lat=1, nports=1, sink_delay=2, stalls=False)
    add(family='amo_arith', nreq=1, lat=0, nports=1, sink_delay=0, stalls=True)
    add(family='amo_minmax', nreq=2, lat=1, nports=1, sink_delay=1, stalls=False)
    add(family='rw', nreq=2, lat=1, nports=1, sink_delay=1, stalls=True, variant='rtl', stall_budget=1)
    add(family='amo_arith', nreq=2, lat=0, nports=1, sink_delay=2, stalls=False, variant='rtl')
    add(family='w', nreq=5, lat=2, nports=1, sink_delay=3, stalls=True, variant='rtl', len0=True, stall_budget=1)
    add(family='w', nreq=4, lat=1, nports=1, sink_delay=2, stalls=True, variant='rtl', len0=True, stall_budget=1)
    add(family='amo_add', nreq=5, lat=1, nports=1, sink_delay=2, stalls=False, variant='rtl', len0=True)      # non-idempotent requests under back-pressure
    add(family='amo_add', nreq=4, lat=0, nports=1, sink_delay=3, stalls=False, len0=True)
    add(family='rw', nreq=1, lat=1, nports=2, sink_delay=0, stalls=False, variant='rtl', dws=[32, 64])
    add(family='rw', nreq=1, lat=0, nports=2, sink_delay=1, stalls=False, dws=[64, 16])
    add(family='rw', nreq=2, lat=1, nports=1, sink_delay=0, stalls=False, mem_nbytes=24)
  else:
    add(family='amo_arith', nreq=2, lat=0, nports=1, sink_delay=1, stalls=False, mem_nbytes=24)
    add(family='rw', nreq=2, lat=1, nports=1, sink_delay=0, stalls=False, variant='rtl', mem_nbytes=40)
    add(family='w', nreq=5, lat=2, nports=1, sink_delay=3, stalls=True, variant='rtl', len0=True, stall_budget=2)
    add(family='w', nreq=4, lat=1, nports=1, sink_delay=2, stalls=True, variant='rtl', len0=True, stall_budget=3)
    add(family='w', nreq=6, lat=3, nports=1, sink_delay=4, stalls=True, variant='rtl', len0=True, stall_budget=1)
    add(family='amo_add', nreq=6, lat=2, nports=1, sink_delay=4, stalls=True, variant='rtl', len0=True, stall_budget=1)
    add(family='amo_add', nreq=5, lat=0, nports=1, sink_delay=2, stalls=True, variant='rtl', len0=True, stall_budget=2)
    add(family='w', nreq=4, lat=2, nports=1, sink_delay=3, stalls=True, len0=True, stall_budget=2)
    add(family='rw', nreq=2, lat=1, nports=2, sink_delay=0, stalls=False, variant='rtl', dws=[32, 64], len0=True)
    add(family='amo_arith', nreq=1, lat=0, nports=2, sink_delay=1, stalls=False, variant='rtl', dws=[64, 32])
    add(family='rw', nreq=1, lat=0, nports=2, sink_delay=3, stalls=False, dws=[64, 16])      # (two ports only with equal timing: with stalls the processing order depends on the stall pattern, which the sequential oracle does not model)
    add(family='amo_minmax', nreq=1, lat=1, nports=2, sink_delay=0, stalls=False, dws=[16, 64])
    for fam in MS.FAMILIES:
      for lat in (0, 1, 3):
        add(family=fam, nreq=2, lat=lat, nports=1, sink_delay=0, stalls=True, stall_budget=(2 if len(MS.FAMILIES[fam]) <= 2 else 1))      # paths grow with types^2 x stall patterns
        add(family=fam, nreq=2, lat=lat, nports=1, sink_delay=3, stalls=False)
      add(family=fam, nreq=1, lat=1, nports=2, sink_delay=1, stalls=False)
    add(family='rw', nreq=3, lat=1, nports=1, sink_delay=1, stalls=False)
    add(family='rw', nreq=2, lat=1, nports=2, sink_delay=0, stalls=False, len0=True)      # four requests: full-width only (lengths multiply the paths by 4 per request)
    for fam in MS.FAMILIES:
      add(family=fam, nreq=2, lat=1, nports=1, sink_delay=2, stalls=True, variant='rtl', stall_budget=1)
      add(family=fam, nreq=2, lat=0, nports=1, sink_delay=0, stalls=False, variant='rtl')
    add(family='rw', nreq=1, lat=2, nports=2, sink_delay=1, stalls=False, variant='rtl')
  for it, r in pmap(item_mem, items, item_timeout=1500 if tier == 'quick' else 6000):
    chk.absorb(it, r)
  chk.bounds = dict(configs=[i['name'] for i in items], window_bytes=WINDOW, requests_per_port='<= 2 (3 in one thorough configuration)', ports='1..2',
                    stall_decisions='arbitrary booleans, at most 2 stalled cycles per port (1 to 3 in the deep-interleaving configurations)')
  chk.outside = ['more requests in flight than the bound', 'accesses that run off the end of the memory', 'liveness under unbounded stalling',
                 'two ports with unequal source timing (processing order is then schedule dependent; only the equal-timing order is specified here)']
  chk.assumptions = ['Random.random() > p replaced by an arbitrary boolean', 'bytearray replaced by a z3 Array', 'atomic operations are word sized (len field 0)']
  chk.finish(rule="per configuration: fork-mode exploration of every path (request type decode x length x stall decisions); the real TestSinkCL compares every response "
                  "with the sequential specification's; final image compared by z3 on a symbolic probe index")


if __name__ == '__main__':
  main()
