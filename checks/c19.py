"""C19 -- round-robin arbiters grant exactly one requester, fairly.

The real RoundRobinArbiter / RoundRobinArbiterEn (+ RegEnRst) run through the real GenDAGPass,
DynamicSchedulePass and PrepareSimPass on symbolic cells (SymSim, block-level merge).
One inductive step from ANY one-hot pointer covers histories of any length.
"""
import sys
import z3

from vlib import Check, pmap, cover, prove
from vlib.pathcheck import Result, prove_from_defaults
from symx import core
from symx.core import Explorer
from symx.symsim import SymSim
from specs import arbiter_spec as AS

REPLAY = '''
sys.path.insert(0, '/verif')
from vlib.rtlreplay import run_trace
from specs.arbiter_spec import py_grant, py_next_ptr
from pymtl3.stdlib.basic_rtl.arbiters import RoundRobinArbiter, RoundRobinArbiterEn
n, en_variant = %(n)d, %(env)r
ptr0 = %(ptr)d
cycles = %(cycles)r
from checks.c19 import decoys
def mk():
  decoys(n)
  return RoundRobinArbiterEn(n) if en_variant else RoundRobinArbiter(n)
tr = run_trace(mk, {'s.priority_reg.out': ptr0}, cycles, ['s.grants', 's.priority_reg.out'])
ptr = ptr0
granted = 0
for t, (cyc, o) in enumerate(zip(cycles, tr)):
  reqs, en, reset = cyc['s.reqs'], cyc.get('s.en', 1), cyc['s.reset']
  g = py_grant(n, reqs, ptr)
  if o['comb']['s.grants'] != g:
    reproduced(f"cycle {t}: n={n} reqs={reqs:#b} pointer={ptr:#b}: grants={o['comb']['s.grants']:#b}, specified {g:#b}")
  nxt = py_next_ptr(n, reqs, ptr, en, reset)
  if o['tick']['s.priority_reg.out'] != nxt:
    reproduced(f"cycle {t}: n={n} reqs={reqs:#b} en={en} reset={reset} pointer={ptr:#b}: next pointer={o['tick']['s.priority_reg.out']:#b}, specified {nxt:#b}")
  granted |= o['comb']['s.grants']
  ptr = nxt
persist = %(persist)d
if persist and not (granted & persist):
  reproduced(f"input mask {persist:#b} requested for {len(cycles)} granting cycles from pointer {ptr0:#b} and was never granted")
'''


def decoys(n):
  """other users of the same register classes, built first in the same process: the arbiter's behaviour must not depend
  on what was constructed before it (per-type caches, class-level state)"""
  from pymtl3 import mk_bits
  from pymtl3.stdlib.basic_rtl.registers import RegEnRst, RegRst, RegEn, Reg
  for mkc in (lambda: RegEnRst(mk_bits(n), reset_value=0), lambda: RegEnRst(mk_bits(n), reset_value=(1 << n) - 2), lambda: RegRst(mk_bits(n), reset_value=2 % (1 << n)),
              lambda: RegEn(mk_bits(n)), lambda: Reg(mk_bits(n))):
    try:
      c = mkc(); c.elaborate()
    except Exception:
      pass


def make(n, env):
  from pymtl3.stdlib.basic_rtl.arbiters import RoundRobinArbiter, RoundRobinArbiterEn
  decoys(n)
  return RoundRobinArbiterEn(n) if env else RoundRobinArbiter(n)


def item_step(it):
  """one step from an arbitrary one-hot pointer, arbitrary reqs/en/reset and arbitrary stale wires"""
  cover.start()
  n, env = it['n'], it['en']
  res = Result(f"step/{'En' if env else 'plain'}/n={n}")
  sim = SymSim(make(n, env))
  B1 = lambda b: z3.If(b, z3.BitVecVal(1, 1), z3.BitVecVal(0, 1))
  names = {}

  def run():
    v = sim.symbolic_state()
    names.update(v)
    sim.top.sim_eval_combinational()
    grants = sim.bv('s.grants')
    sim.top.sim_tick()
    return grants, sim.bv('s.priority_reg.out')

  probe = sim.symbolic_state()
  ptr, reqs, reset = probe['s.priority_reg.out'], probe['s.reqs'], probe['s.reset']
  en = probe['s.en'] if env else z3.BitVecVal(1, 1)
  inv = AS.z3_onehot(n, ptr)
  ex = Explorer(base_pc=[inv], max_paths=200)
  for pc, out, exc in ex.paths(run):
    res['states'] += 1; res['transitions'] += len(pc)
    full = [inv] + pc
    if exc is not None:
      goal = z3.BoolVal(False); grants = nxt = None
    else:
      grants, nxt = out
      sg = AS.z3_grant(n, reqs, ptr)
      goal = z3.And(grants == sg,
                    # the statement's clauses, each spelled out (they also follow from grants == sg)
                    (grants == 0) == (reqs == 0), grants & (grants - 1) == 0, grants & ~reqs == 0,
                    nxt == AS.z3_next_ptr(n, reqs, ptr, en == 1, reset == 1),
                    AS.z3_onehot(n, nxt))
    res['obligations'] += 1
    stale = [x for k, x in probe.items() if not sim.by_name[k].dbuf and not any(x.eq(y) for y in (reqs, reset, en))]
    v, m, stale_only = prove_from_defaults(full, goal, stale)
    if v == 'unsat':
      res['discharged'] += 1; res['distinct'].append(f"{res['name']}#{res['states']}")
    elif v == 'sat' and stale_only:
      res['inconclusive'].append("the outcome depends on a stale wire value that is not the power-on default (a wire is not recomputed); "
                                 "no counterexample from default wire values on this path")
    elif v == 'sat':
      g = lambda x: m.eval(x, model_completion=True).as_long()
      cyc = {'s.reqs': g(reqs), 's.reset': g(reset)}
      if env: cyc['s.en'] = g(en)
      res['violations'].append(dict(key=f"RoundRobinArbiter{'En' if env else ''} step", what=f"{res['name']}: grants/pointer differ from the round-robin specification" + (f" ({type(exc).__name__}: {exc})" if exc else ''),
                                    replay=REPLAY % dict(n=n, env=env, ptr=g(ptr), cycles=[cyc], persist=0)))
    else:
      res['inconclusive'].append(f"solver unknown: {m}")
    if exc is None and res['twins_expected'] == 0:
      res['twins_expected'] = 1
      if prove(full, z3.Not(z3.And(grants != 0, nxt != ptr)))[0] == 'sat': res['twins_sat'] = 1
  res['samples'].append(f"{res['name']}: {res['states']} outer paths, {sim.stats['blk_paths']} block paths merged; pre-state = any one-hot pointer + arbitrary stale wires")
  return res.r


def item_fair(it):
  """BMC: an input that keeps requesting is granted within n granting cycles (en held high, no reset)"""
  cover.start()
  n, env = it['n'], it['en']
  res = Result(f"fair/{'En' if env else 'plain'}/n={n}")
  sim = SymSim(make(n, env))
  mask = z3.BitVec('persist', n)
  reqv = [z3.BitVec(f'reqs{t}', n) for t in range(n)]

  def run():
    v = sim.symbolic_state()
    gs = []
    for t in range(n):
      sim.set('s.reqs', reqv[t]); sim.set('s.reset', 0)
      if env: sim.set('s.en', 1)
      sim.top.sim_eval_combinational()
      gs.append(sim.bv('s.grants'))
      sim.top.sim_tick()
    return v['s.priority_reg.out'], gs

  ptr = z3.BitVec('s.priority_reg.out', n)
  base = [AS.z3_onehot(n, ptr), AS.z3_onehot(n, mask)] + [r & mask == mask for r in reqv]
  ex = Explorer(base_pc=base, max_paths=500)
  for pc, out, exc in ex.paths(run):
    res['states'] += 1; res['transitions'] += len(pc)
    full = base + pc
    goal = z3.BoolVal(False) if exc is not None else z3.Or(*[g & mask != 0 for g in out[1]])
    res['obligations'] += 1
    v, m = prove(full, goal)
    if v == 'unsat':
      res['discharged'] += 1; res['distinct'].append(f"{res['name']}#{res['states']}")
    elif v == 'sat':
      g = lambda x: m.eval(x, model_completion=True).as_long()
      cycles = [dict({'s.reqs': g(r), 's.reset': 0}, **({'s.en': 1} if env else {})) for r in reqv]
      res['violations'].append(dict(key=f"RoundRobinArbiter{'En' if env else ''} fairness", what=f"{res['name']}: persistent requester starved",
                                    replay=REPLAY % dict(n=n, env=env, ptr=g(ptr), cycles=cycles, persist=g(mask))))
    else:
      res['inconclusive'].append(f"solver unknown: {m}")
    if exc is None and res['twins_expected'] == 0:
      res['twins_expected'] = 1
      if n == 1 or prove(full, z3.Not(out[1][0] & mask == 0))[0] == 'sat': res['twins_sat'] = 1
  res['samples'].append(f"{res['name']}: {n} cycles, symbolic one-hot requester mask, other requests arbitrary every cycle")
  return res.r


def dispatch(it):
  return {'step': item_step, 'fair': item_fair}[it['kind']](it)


def main():
  tier = sys.argv[1] if len(sys.argv) > 1 else 'quick'
  chk = Check('C19', tier)
  ns = [2, 3, 4, 5] if tier == 'quick' else [2, 3, 4, 5, 6, 7, 8]
  items = []
  for n in reversed(ns):
    for env in (False, True):
      items.append(dict(kind='step', n=n, en=env))
      if n <= (4 if tier == 'quick' else 6): items.append(dict(kind='fair', n=n, en=env))
  for it, r in pmap(dispatch, items, item_timeout=600 if tier == 'quick' else 2400):
    chk.absorb(it, r)
  chk.bounds = dict(nreqs=ns, step='one inductive step from any one-hot pointer; all other cells (stale wires) arbitrary',
                    fairness_bmc='nreqs cycles, nreqs <= ' + ('4' if tier == 'quick' else '6'))
  chk.outside = ['nreqs above the bound (the design is generic in nreqs, the claim is per nreqs)', 'nreqs = 1 (mk_bits/slices degenerate; the statement says two or more)']
  chk.assumptions = ['pointer register is one-hot (representation invariant; shown inductive: post-state one-hot is part of the obligation)',
                     'scheduler = DynamicSchedulePass (schedule independence is C01)']
  chk.finish(rule="per (variant, nreqs): inductive-step obligation per outer path (grants == first requester cyclically at/after pointer, onehot0, subset, "
                  "pointer' == reset?1:(advance?rotl(grants):pointer), one-hot preserved) + fairness BMC over nreqs cycles")


if __name__ == '__main__':
  main()
