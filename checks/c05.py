"""C05 -- slices, concat, extension, reduce operators and clog2 address exactly the named bits.

Both slice bounds and the index are *signed symbolic ints*, so negative, equal, reversed, zero and
out-of-range bounds are all inside one query; None bounds and steps are separate shapes.
"""
import sys
import z3

from vlib import Check, pmap, cover, run_replay
from vlib.pathcheck import Result, check_paths
from symx import core, pymtl as sp
from symx.core import fresh, fresh_signed, ubv, in_range, lift, SymInt, Explorer

T = z3.BoolVal(True)


def _ib(n): return (n + 2).bit_length() + 1       # width of a signed symbolic index/bound


def _sxw(e, w): return e if e.size() == w else z3.SignExt(w - e.size(), e)


REPLAY_IDX = '''
sys.path.insert(0, '/verif')
from specs.bits_spec import py_getitem, py_setitem
from pymtl3.datatypes.PythonBits import Bits
N, X = %(N)d, %(X)d
idx = %(idx)r
V = %(V)r
mode = %(mode)r
x = Bits(N, X)
pyidx = slice(*idx) if isinstance(idx, tuple) else idx
if isinstance(idx, tuple) and idx[2] == 'absent': pyidx = slice(idx[0], idx[1]); idx = (idx[0], idx[1], None)
try:
  if mode == 'get':
    r = x[pyidx]; got = ('val', int(r._uint), r.nbits) if (r is not x and x[pyidx] is not r) else ('aliases the value read or an earlier result',)
  else:
    v = Bits(V[1], V[2]) if isinstance(V, tuple) else V
    x[pyidx] = v; got = ('val', int(x._uint), x.nbits)
except Exception as e:
  got = ('exc', type(e).__name__)
exp = [py_getitem(N, X, idx)] if mode == 'get' else py_setitem(N, X, idx, V)
if got not in exp:
  reproduced(f"{mode} x[{idx}] N={N} X={X:#x} V={V}: got {got}, specified one of {exp}")
'''


def item_index(it):
  """x[idx], x[lo:hi], x[lo:hi:step], with None shapes; mode get or set"""
  cover.start()
  Bits = sp.setup()
  n, shape, mode, vk = it['n'], it['shape'], it['mode'], it.get('v')
  res = Result(f"{mode}/{shape}/n={n}" + (f"/v={vk}" if vk else ''))
  kb = _ib(n)
  sx, xv = fresh('x', n)
  slo, lov = fresh_signed('lo', kb); shi, hiv = fresh_signed('hi', kb); sst, stv = fresh_signed('st', kb)
  W = max(n + 2, kb + 1)
  LO = {'idx': lov, 'lohi': lov, 'lo_': lov, '_hi': None, '__': None, 'step': lov, 'nostep_none': lov}[shape]
  HI = {'idx': None, 'lohi': hiv, 'lo_': None, '_hi': hiv, '__': None, 'step': hiv, 'nostep_none': hiv}[shape]
  lo_e = z3.BitVecVal(0, W) if LO is None else _sxw(LO, W)
  hi_e = z3.BitVecVal(n, W) if HI is None else _sxw(HI, W)
  if shape == 'idx': hi_e = lo_e + 1
  valid = z3.And(lo_e >= 0, lo_e < hi_e, hi_e <= n)
  if shape == 'step': valid = z3.BoolVal(False)       # any stepped slice is an error
  wd = hi_e - lo_e                                      # slice width (W bits)
  xw = z3.ZeroExt(W - n, xv)
  one = z3.BitVecVal(1, W)
  mask = (one << wd) - 1
  # value to store
  if mode == 'set':
    if vk == 'int':
      sv, vv = fresh_signed('v', n + 3)
      VW = max(W, n + 4)
      v_e = _sxw(vv, VW); wdv = _sxw(wd, VW) if wd.size() < VW else wd
      onev = z3.BitVecVal(1, VW)
      good_v = z3.And(v_e >= -(onev << (wdv - 1)), v_e <= (onev << wdv) - 1)
      v_low = z3.Extract(W - 1, 0, v_e) & mask
      narrower = z3.BoolVal(False)
      m = None
    else:
      m = int(vk)
      sv, vv = fresh('v', m)
      good_v = (wd == m)
      narrower = z3.ULT(z3.BitVecVal(m, W), wd) if True else None
      narrower = z3.And(wd > m)
      v_low = z3.ZeroExt(W - m, vv) if m <= W else z3.Extract(W - 1, 0, vv)
    new_x = (xw & ~(mask << lo_e)) | (v_low << lo_e)

  def pget(out):
    r = out['r']
    # the result's width is `stop - start`: symbolic, pinned by the path condition (the _upper[] lookup concretises it)
    wE = ubv(r._nbits, W)
    if not out.get('fresh', True): return z3.BoolVal(False)      # a read must not alias the value it was read from
    return z3.And(wd == wE, ubv(r._uint, W) == (z3.LShR(xw, lo_e) & mask), in_range(r._uint, 0, (1 << n) - 1))

  def pset(out):
    x = out['x']
    return z3.And(ubv(x._uint, n) == z3.Extract(n - 1, 0, new_x), in_range(x._uint, 0, (1 << n) - 1))

  if mode == 'get':
    spec = [(valid, 'val', pget), (z3.Not(valid), 'exc', 'IndexError')]
  else:
    spec = [(z3.And(valid, z3.Or(good_v, narrower)), 'val', pset), (z3.Not(valid), 'exc', 'IndexError'),
            (z3.Or(z3.Not(valid), z3.Not(good_v)), 'exc', 'ValueError')]

  def mkidx():
    if shape == 'idx': return slo
    if shape == 'lohi': return slice(slo, shi)
    if shape == 'lo_': return slice(slo, None)
    if shape == '_hi': return slice(None, shi)
    if shape == '__': return slice(None, None)
    if shape == 'step': return slice(slo, shi, sst)
    if shape == 'nostep_none': return slice(slo, shi, None)

  def run():
    x = sp.PB._new_valid_bits(n, sx)
    if mode == 'get':
      r = x[mkidx()]
      return {'r': r, 'fresh': r is not x and x[mkidx()] is not r}      # ... nor an earlier result of the same read (values are mutable)
    v = sv if vk == 'int' else sp.PB._new_valid_bits(m, sv)
    x[mkidx()] = v
    return {'x': x}

  def replay(mdl, what):
    g = lambda v: mdl.eval(v, model_completion=True)
    L = None if LO is None else g(lov).as_signed_long()
    H = None if HI is None else g(hiv).as_signed_long()
    idx = L if shape == 'idx' else (L, H, g(stv).as_signed_long() if shape == 'step' else None)
    V = None
    if mode == 'set': V = g(vv).as_signed_long() if vk == 'int' else ('bits', m, g(vv).as_long())
    return REPLAY_IDX % dict(N=n, X=g(xv).as_long(), idx=idx, V=V, mode=mode)

  def key(mdl, what):
    return f"Bits.__{mode}item__ {shape}"

  check_paths(res, run, spec, replay=replay, key=key, twin=lambda out: T, max_paths=60000,
              sample=lambda pc, out, exc: f"{mode} {shape} at n={n}: path with {len(pc)} decisions -> " + ("value" if exc is None else type(exc).__name__))
  return res.r


# ---------------------------------------------------------------------------
# helpers
# ---------------------------------------------------------------------------
REPLAY_HELP = '''
sys.path.insert(0, '/verif')
from pymtl3.datatypes import Bits, concat, zext, sext, trunc, reduce_and, reduce_or, reduce_xor, mk_bits
what = %(what)r
ws, vals, new = %(ws)r, %(vals)r, %(new)r
args = [Bits(w, v) for w, v in zip(ws, vals)]
def sgn(v, w): return v - 2**w if v >= 2**(w-1) else v
try:
  if what == 'concat':
    r = concat(*args); e = 0
    for w, v in zip(ws, vals): e = (e << w) | v
    exp = ('val', e, sum(ws)) if sum(ws) < 1024 else ('exc',)
  elif what in ('zext', 'zext_cls'):
    r = zext(args[0], new if what == 'zext' else mk_bits(new)); exp = ('val', vals[0], new) if new >= ws[0] else ('exc',)
  elif what in ('sext', 'sext_cls'):
    r = sext(args[0], new if what == 'sext' else mk_bits(new)); exp = ('val', sgn(vals[0], ws[0]) %% 2**new, new) if new >= ws[0] else ('exc',)
  elif what in ('trunc', 'trunc_cls'):
    r = trunc(args[0], new if what == 'trunc' else mk_bits(new)); exp = ('val', vals[0] %% 2**new, new) if new <= ws[0] else ('exc',)
  elif what == 'reduce_and': r = reduce_and(args[0]); exp = ('val', int(vals[0] == 2**ws[0]-1), 1)
  elif what == 'reduce_or':  r = reduce_or(args[0]);  exp = ('val', int(vals[0] != 0), 1)
  elif what == 'reduce_xor': r = reduce_xor(args[0]); exp = ('val', bin(vals[0]).count('1') & 1, 1)
  got = ('val', int(r._uint), r.nbits)
except Exception as e:
  got = ('exc',)
if got != exp: reproduced(f"{what} widths={ws} values={vals} new={new}: got {got}, specified {exp}")
'''


def item_helper(it):
  cover.start()
  Bits = sp.setup()
  from pymtl3.datatypes import mk_bits
  HP = sp.HP
  what, ws, new = it['what'], it['ws'], it.get('new')
  res = Result(f"{what}/widths={ws}" + (f"/new={new}" if new else ''))
  syms = [fresh(f'x{i}', w) for i, w in enumerate(ws)]
  mk = lambda: [sp.PB._new_valid_bits(w, s) for w, (s, v) in zip(ws, syms)]
  n = ws[0]; xv = syms[0][1]

  def P(term, w):
    def p(out):
      r = out['r']
      if not hasattr(r, '_nbits') or r._nbits != w: return z3.BoolVal(False)
      return z3.And(ubv(r._uint, w) == term, in_range(r._uint, 0, (1 << w) - 1))
    return p

  ANYEXC = ['AssertionError', 'ValueError']
  if what == 'concat':
    tot = sum(ws)
    if tot < 1024:
      term = syms[0][1]
      for s, v in syms[1:]: term = z3.Concat(term, v)
      spec = [(T, 'val', P(term, tot))]
    else:
      spec = [(T, 'exc', e) for e in ANYEXC]
    fn = lambda: {'r': HP.concat(*mk())}
  elif what in ('zext', 'sext', 'trunc', 'zext_cls', 'sext_cls', 'trunc_cls'):
    base = what.split('_')[0]
    ok = (new >= n) if base != 'trunc' else (new <= n)
    if ok:
      term = {'zext': lambda: z3.ZeroExt(new - n, xv), 'sext': lambda: z3.SignExt(new - n, xv),
              'trunc': lambda: z3.Extract(new - 1, 0, xv)}[base]()
      spec = [(T, 'val', P(term, new))]
    else:
      spec = [(T, 'exc', e) for e in ANYEXC]
    arg2 = new if not what.endswith('_cls') else mk_bits(new)
    fn = lambda: {'r': getattr(HP, base)(mk()[0], arg2)}
  elif what == 'reduce_and':
    spec = [(T, 'val', P(z3.BVRedAnd(xv), 1))]; fn = lambda: {'r': HP.reduce_and(mk()[0])}
  elif what == 'reduce_or':
    spec = [(T, 'val', P(z3.BVRedOr(xv), 1))]; fn = lambda: {'r': HP.reduce_or(mk()[0])}
  elif what == 'reduce_xor':
    t = z3.Extract(0, 0, xv)
    for i in range(1, n): t = t ^ z3.Extract(i, i, xv)
    spec = [(T, 'val', P(t, 1))]; fn = lambda: {'r': HP.reduce_xor(mk()[0])}

  def replay(mdl, w_):
    g = lambda v: mdl.eval(v, model_completion=True).as_long()
    return REPLAY_HELP % dict(what=what, ws=ws, vals=[g(v) for s, v in syms], new=new)

  check_paths(res, fn, spec, replay=replay, key=lambda m_, w_: f"helpers.{what}", twin=lambda out: T,
              sample=lambda pc, out, exc: f"{what} widths={ws} new={new}: {len(pc)} decisions -> " + ("value" if exc is None else type(exc).__name__))
  return res.r


# ---------------------------------------------------------------------------
# clog2, with libm behind a nondeterministic stub constrained by its accuracy contract
# ---------------------------------------------------------------------------
class _StubLog:
  """what math.log(N, 2) returns under symx: only its ceiling is ever used by clog2"""
  def __init__(s, c): s.c = c
  def __ceil__(s): return s.c


STUB_LIMIT = 40      # the contract is stated for N < 2^40 only (beyond it nothing is known without modelling libm)


def item_clog2(it):
  cover.start()
  sp.setup()
  HP = sp.HP
  import math as _math
  B = it['bits']
  res = Result(f"clog2/N<2^{B}")
  sn, nv = fresh('N', B)
  stub_hit = []

  class StubMath:
    ceil = staticmethod(lambda x: x.__ceil__() if isinstance(x, _StubLog) else _math.ceil(x))
    @staticmethod
    def log(x, base=None):
      if not core.is_sym(x): return _math.log(x, base) if base is not None else _math.log(x)
      if base != 2: raise core.Unsupported("math.log with a base other than 2")
      stub_hit.append(1)
      # contract: exact int->float conversion below 2^53, both logs correctly rounded to ~1ulp, quotient
      # rounded once  =>  for N < 2^40: ceil is exact unless N is a power of two, where it may be k or k+1
      core.assume(core.SymBool(z3.ULT(nv, z3.BitVecVal(1 << min(STUB_LIMIT, B - 1), B)) if B > STUB_LIMIT else z3.BoolVal(True)))
      c, cv = fresh('stub_ceil', 8)
      k = lift(x).bit_length()           # k = floor(log2 x) + 1
      ispow = (x & (x - 1)) == 0
      km1 = k - 1
      if ispow:                          # N == 2^(k-1): ceil may come out as k-1 or k
        core.assume((c == km1) | (c == k))
      else:
        core.assume(c == k)
      return _StubLog(c)
    log2 = staticmethod(lambda x: StubMath.log(x, 2))
    def __getattr__(s, n_): return getattr(_math, n_)

  def spec_ok(out):
    r = lift(out['r'])
    W = B + 2
    Nw = z3.ZeroExt(W - B, nv)
    rw = ubv(r, W)
    one = z3.BitVecVal(1, W)
    return z3.And(rw >= 0, rw <= B, Nw <= (one << rw), z3.Or(rw == 0, Nw > (one << (rw - 1))))

  spec = [(nv != 0, 'val', spec_ok), (nv == 0, 'exc', 'AssertionError')]
  old = HP.math
  HP.math = StubMath()
  try:
    # collect every candidate N the solver proposes; replay each on the pristine function
    def fn(): return {'r': HP.clog2(sn)}
    from vlib import prove
    ex = Explorer(max_paths=5000)
    for pc, out, exc in ex.paths(fn):
      if isinstance(exc, core.PathPruned): continue
      res['states'] += 1; res['transitions'] += len(pc)
      if exc is None: goal = z3.And(nv != 0, spec_ok(out))
      else: goal = (nv == 0) if type(exc).__name__ == 'AssertionError' else z3.BoolVal(False)
      blocked = []
      for _ in range(70):
        res['obligations'] += 1
        v, m = prove(pc + blocked, goal)
        if v == 'unsat':
          res['discharged'] += 1
          break
        if v != 'sat':
          res['inconclusive'].append(f"solver unknown: {m}"); break
        N = m.eval(nv, model_completion=True).as_long()
        res['violations'].append(dict(key='helpers.clog2', speculative=bool(stub_hit),
                                      what=f"clog2({N}) (= 2^{N.bit_length()-1} if a power of two) is not min{{k: 2^k >= N}}",
                                      replay=f'''
sys.path.insert(0, '/verif')
from specs.bits_spec import py_clog2
from pymtl3.datatypes import clog2
N = {N}
try: got = clog2(N)
except Exception as e: got = type(e).__name__
exp = py_clog2(N) if N > 0 else 'AssertionError'
if got != exp: reproduced(f"clog2({{N}}) = {{got}}, specified {{exp}}")
'''))
        blocked.append(nv != N)
    res['note'] = 'math.log stub reached' if stub_hit else 'integer-only implementation: stub never reached'
  finally:
    HP.math = old
  res['twins_expected'] = 0
  res['samples'].append(f"clog2 of a symbolic {B}-bit N: {res['states']} paths, {res['note']}")
  return res.r


def item_clog2_table(it):
  """clog2 around every power of two up to 2^1100 (where a floating-point implementation rounds): a finite table
  compared directly -- libm is a C boundary, beyond the stub's stated contract nothing can be said symbolically"""
  cover.start()
  sp.setup()
  from specs.bits_spec import py_clog2
  HP = sp.HP
  res = Result("clog2/table")
  seen = set()
  for k in range(0, 1101):
    for N in (2 ** k - 1, 2 ** k, 2 ** k + 1, 2 ** k + 2 ** (k // 2), 3 * 2 ** k, 2 ** k + 3, 2 ** (k + 1) - 2 ** (k // 3)):
      if N <= 0 or N in seen: continue
      seen.add(N)
      res['obligations'] += 1; res['states'] += 1
      try: got = HP.clog2(N)
      except Exception as e: got = type(e).__name__
      if got == py_clog2(N): res['discharged'] += 1
      elif len(res['violations']) < 3:
        res['violations'].append(dict(key='helpers.clog2', what=f"clog2({N}) = {got}, specified {py_clog2(N)} (N = 2^{k} + {N - 2 ** k})",
                                      replay=f'''
sys.path.insert(0, '/verif')
from specs.bits_spec import py_clog2
from pymtl3.datatypes import clog2
N = {N}
try: got = clog2(N)
except Exception as e: got = type(e).__name__
if got != py_clog2(N): reproduced(f"clog2({{N}}) = {{got}}, specified {{py_clog2(N)}}")
'''))
  res['transitions'] = res['states']
  res['twins_expected'] = 0
  res['distinct'].append('clog2/table')
  res['samples'].append(f"clog2 table: {len(seen)} values around the powers of two up to 2^1100")
  return res.r


REPLAY_SEQ = '''
sys.path.insert(0, '/verif')
from checks.c05 import sequence_problem
msg = sequence_problem(%(upto)d)
if msg: reproduced(msg)
'''


def _seq_ops():
  ops = []
  for n in (8, 64, 300, 520, 1023):
    pairs = [(0, n), (0, 1), (n - 1, n), (1, 5), (2, 5), (3, 7), (0, min(261, n)), (1, min(261, n)), (0, min(517, n)), (2, min(517, n)), (256, min(300, n)), (255, min(257, n)),
             (n // 2, n // 2 + 3), (n // 3, 2 * n // 3), (5, min(n, 6))]
    for lo, hi in pairs:
      if 0 <= lo < hi <= n: ops.append((n, lo, hi))
  return ops + list(reversed(ops)) + ops[::3]


def sequence_problem(upto=None):
  """many slice/bit writes and reads on values of several widths in ONE process, in an order that revisits the same bounds
  on other widths (state kept between calls -- caches, tables -- must not leak from one call into the next)"""
  from pymtl3.datatypes import Bits
  ops = _seq_ops()
  for k, (n, lo, hi) in enumerate(ops[:upto]):
    M = (1 << n) - 1
    for pat in (M, 0, int('a5' * 256, 16) & M):
      x = Bits(n, pat)
      v = (int('3c' * 256, 16) >> (k % 7)) & ((1 << (hi - lo)) - 1)
      x[lo:hi] = v
      want = (pat & ~(((1 << (hi - lo)) - 1) << lo) & M) | (v << lo)
      if int(x) != want: return f"step {k}: Bits{n}({pat:#x})[{lo}:{hi}] = {v:#x} gives {int(x):#x}, expected {want:#x} (after {k} earlier writes in this process)"
      r = x[lo:hi]
      if int(r) != v or r.nbits != hi - lo: return f"step {k}: reading Bits{n}[{lo}:{hi}] back gives {r!r}, expected {v:#x} ({hi - lo} bits)"
      x[lo] = 1 - ((pat >> lo) & 1)
      want2 = want ^ ((((want >> lo) & 1) ^ (1 - ((pat >> lo) & 1))) << lo)
      if int(x) != want2: return f"step {k}: Bits{n}[{lo}] = {1 - ((pat >> lo) & 1)} gives {int(x):#x}, expected {want2:#x}"
  return None


def item_sequence(it):
  cover.start()
  res = Result("index/sequence")
  n = len(_seq_ops())
  res['obligations'] = n; res['states'] = n; res['transitions'] = n
  msg = sequence_problem()
  if msg is None: res['discharged'] = n
  else:
    import re
    upto = int(re.match(r"step (\d+)", msg).group(1)) + 1
    res['violations'].append(dict(key='Bits slice write sequence', what=msg, replay=REPLAY_SEQ % dict(upto=upto)))
  res['twins_expected'] = 0
  res['distinct'].append('index/sequence')
  res['samples'].append(f"{n} slice writes / reads / bit writes in one process on widths 8..1023, revisiting bounds across widths")
  return res.r


def dispatch(it):
  return {'index': item_index, 'helper': item_helper, 'clog2': item_clog2, 'clog2_table': item_clog2_table, 'sequence': item_sequence}[it['kind']](it)


def main():
  tier = sys.argv[1] if len(sys.argv) > 1 else 'quick'
  chk = Check('C05', tier)
  wq = [1, 2, 8, 33, 65]
  wt = [1, 2, 3, 8, 9, 33, 64, 65, 255]
  widths = wq if tier == 'quick' else wt
  items = []
  for n in widths:
    for shape in ('idx', 'lohi', 'lo_', '_hi', '__', 'step', 'nostep_none'):
      items.append(dict(kind='index', mode='get', shape=shape, n=n))
      vks = ['int'] + sorted({1, 2, max(1, n // 2), n, n + 1} if n <= 64 else {1, n})
      if tier == 'quick' and n > 33: vks = ['int', n, n + 1]
      for vk in vks:
        items.append(dict(kind='index', mode='set', shape=shape, n=n, v=str(vk)))
  if tier == 'thorough':
    for shape in ('idx', '_hi'):          # ('lohi' at 1023 forks once per slice width AND per bound pattern: > 25 min; covered at 255)
      items.append(dict(kind='index', mode='get', shape=shape, n=1023))
    items.append(dict(kind='index', mode='set', shape='idx', n=1023, v='int'))
    items.append(dict(kind='index', mode='set', shape='idx', n=1023, v='1'))
  hw = [1, 2, 8, 33, 64, 65, 128] if tier == 'quick' else [1, 2, 3, 8, 33, 64, 65, 128, 512, 1023]
  for n in hw:
    for what in ('reduce_and', 'reduce_or'):
      items.append(dict(kind='helper', what=what, ws=[n]))
    if n <= 128:
      items.append(dict(kind='helper', what='reduce_xor', ws=[n]))
    for new in sorted({1, max(1, n - 1), n, n + 1, 2 * n, 1023}):
      if new > 1023: continue
      for what in ('zext', 'sext', 'trunc'):
        items.append(dict(kind='helper', what=what, ws=[n], new=new))
        okv = (new >= n) if what != 'trunc' else (new <= n)
        if okv: items.append(dict(kind='helper', what=what + '_cls', ws=[n], new=new))
  for ws in ([1], [1, 1], [8, 8], [3, 5, 7], [1, 2, 3, 4], [33, 64, 1], [512, 511], [512, 512], [1023, 1], [1000, 20, 3],
             [255, 255, 255, 255], [255, 256, 256, 256]):
    items.append(dict(kind='helper', what='concat', ws=ws))
  items.append(dict(kind='clog2', bits=64))
  items.append(dict(kind='clog2_table'))
  items.append(dict(kind='sequence'))
  items.append(dict(kind='clog2', bits=5))      # small explicit domain: an implementation that renders N (bin/str) is enumerated, not lost
  if tier == 'thorough': items.append(dict(kind='clog2', bits=1024))
  items.sort(key=lambda it: -(it.get('n') or max(it.get('ws', [0])) or it.get('bits', 0)))
  for it, r in pmap(dispatch, items, item_timeout=400 if tier == 'quick' else 1500):
    chk.absorb(it, r)
  chk.bounds = dict(slice_widths=widths + ([1023] if tier == 'thorough' else []), helper_widths=hw,
                    bounds_and_indices='signed, (n+2).bit_length()+1 bits: every value in [-(n+2), n+2] and beyond',
                    stored_values='Bits of widths {1,2,n/2,n,n+1} and signed ints of n+3 bits',
                    clog2='N < 2^64 (thorough 2^1024); libm stub contract stated for N < 2^40')
  chk.outside = ['slice widths not listed', 'zext/sext/trunc to a *narrower/wider class* (no documented behaviour)']
  chk.assumptions = ['stand-ins int/isinstance/hex; Bits shims (DESIGN 4.3)',
                     'math.log stub: exact ceiling below 2^40 except at powers of two, where k or k+1 (only reached if clog2 uses libm)']
  chk.finish(rule="one work item per (operation, index shape, width, stored-value kind); each feasible path of the real "
                  "__getitem__/__setitem__/helper is one obligation against Extract / frame equation / Concat / ZeroExt / SignExt / BVRed*")


if __name__ == '__main__':
  main()
