"""C12 -- Yosys-compatible translation is equivalent, with a faithful flat port map (see checks/_tv.py):
inputs are driven leaf by leaf with the slice of the packed value given by the specified layout, outputs are compared leaf by leaf."""
from checks import c03

if __name__ == '__main__':
  c03.main('C12', 'y')
