"""svsem.sem -- lexer, recursive-descent parser and IEEE-1800 two-state expression semantics for exactly the
SystemVerilog/Verilog subset that pymtl3's VTranslator / YosysTranslator print.

Written from the standard (sizing rules of 1800-2017 section 11.6/11.8: context- vs self-determined operands,
unsigned unless all operands signed, truncation on assignment; packed struct / array layout; two-state
out-of-range reads give 0 and writes are dropped), NOT from pymtl3.  Errors:
  SVSyntaxError  the text is not valid (System)Verilog / violates a well-formedness rule  -> a C03/C12 violation
  SVUnsupported  legal SV outside the implemented subset                                  -> design skipped
"""
import re, z3

class SVSyntaxError(Exception): pass
class SVUnsupported(Exception): pass

KEYWORDS_UNSUPPORTED = {'case','casez','endcase','function','endfunction','task','generate','genvar','while','initial','always','wire','reg','parameter','signed','unsigned_'}

TOK = re.compile(r"""
   (?P<ws>\s+|//[^\n]*|`[^\n]*)
 | (?P<snum>\d+\s*'\s*[sS]?[dDbBhHoO]\s*[0-9a-fA-F_xXzZ?]+)
 | (?P<cast>\d+\s*'(?=\s*\())
 | (?P<num>\d+)
 | (?P<id>[A-Za-z_][A-Za-z_0-9$]*)
 | (?P<op>'\{|<<<|>>>|<<|>>|<=|>=|==|!=|&&|\|\||\+:|-:|\+=|-=|[-+*/%&|^~!<>=?:;,.()\[\]{}@])
""", re.X)

def lex(src):
  pos, out = 0, []
  while pos < len(src):
    m = TOK.match(src, pos)
    if not m: raise SVSyntaxError(f"bad character {src[pos]!r} at {pos}")
    pos = m.end()
    k = m.lastgroup
    if k == 'ws': continue
    out.append((k, m.group(k)))
  out.append(('eof', ''))
  return out

class Parser:
  def __init__(s, src):
    s.t = lex(src); s.i = 0; s.typedefs = {}; s.modules = {}
  def peek(s, k=0): return s.t[s.i+k]
  def next(s): t = s.t[s.i]; s.i += 1; return t
  def accept(s, v):
    if s.t[s.i][1] == v and s.t[s.i][0] in ('op','id'): s.i += 1; return True
    return False
  def expect(s, v):
    if not s.accept(v): raise SVSyntaxError(f"expected {v!r} got {s.peek()} near token {s.i}: {' '.join(x[1] for x in s.t[max(0,s.i-8):s.i+4])}")
  def ident(s):
    k, v = s.next()
    if k != 'id': raise SVSyntaxError(f"expected identifier got {v!r}")
    if v in KEYWORDS_UNSUPPORTED: raise SVUnsupported(v)
    return v
  # ---- top
  def parse(s):
    while s.peek()[0] != 'eof':
      if s.accept('typedef'): s.typedef()
      elif s.accept('module'): s.module()
      else: raise SVSyntaxError(f"unexpected {s.peek()} at top level")
    return s
  def dims(s):
    d = []
    while s.peek()[1] == '[':
      s.next(); a = s.expr(); s.expect(':'); b = s.expr(); s.expect(']'); d.append((a, b))
    return d
  def typespec(s):
    if s.accept('logic'): base = ('logic',)
    elif s.accept('integer'): return ('integer',), []
    elif s.accept('int'):
      s.expect('unsigned'); return ('intu',), []
    else:
      n = s.ident()
      if n not in s.typedefs: raise SVSyntaxError(f"unknown type {n}")
      base = ('named', n)
    return base, s.dims()
  def typedef(s):
    s.expect('struct'); s.expect('packed'); s.expect('{')
    fields = []
    while not s.accept('}'):
      base, pd = s.typespec(); name = s.ident(); s.expect(';'); fields.append((name, base, pd))
    name = s.ident(); s.expect(';')
    if name in s.typedefs: raise SVSyntaxError(f"type {name} defined twice")
    s.typedefs[name] = fields
  def module(s):
    name = s.ident()
    if name in s.modules: raise SVSyntaxError(f"module {name} defined twice")
    ports, items = [], []
    s.expect('(')
    while not s.accept(')'):
      d = s.ident()
      if d not in ('input','output'): raise SVSyntaxError(f"bad port direction {d}")
      base, pd = s.typespec(); pname = s.ident(); ud = s.dims()
      ports.append((d, base, pd, pname, ud))
      if not s.accept(','):
        s.expect(')'); break
    s.expect(';')
    while not s.accept('endmodule'):
      items.append(s.item())
    s.modules[name] = dict(name=name, ports=ports, items=items)
  def item(s):
    k, v = s.peek()
    if v == 'assign':
      s.next(); l = s.postfix(); s.expect('='); e = s.expr(); s.expect(';'); return ('assign', l, e)
    if v == 'always_comb':
      s.next(); return ('comb', s.stmt())
    if v == 'always_ff':
      s.next(); s.expect('@'); s.expect('('); s.expect('posedge'); clk = s.ident(); s.expect(')'); return ('ff', s.stmt())
    if v == 'localparam':
      s.next(); base, pd = s.typespec(); name = s.ident(); ud = s.dims(); s.expect('='); e = s.expr(); s.expect(';')
      return ('localparam', base, pd, name, ud, e)
    if v in ('logic','integer') or (k == 'id' and v in s.typedefs):
      base, pd = s.typespec(); name = s.ident(); ud = s.dims(); s.expect(';'); return ('decl', base, pd, name, ud)
    if k == 'id':
      mod = s.ident(); inst = s.ident(); s.expect('('); conns = []
      while not s.accept(')'):
        s.expect('.'); p = s.ident(); s.expect('('); e = s.expr(); s.expect(')'); conns.append((p, e))
        if not s.accept(','):
          s.expect(')'); break
      s.expect(';'); return ('inst', mod, inst, conns)
    raise SVSyntaxError(f"unexpected {v!r} in module body")
  def stmt(s):
    k, v = s.peek()
    if v == 'begin':
      s.next()
      if s.accept(':'): s.ident()
      body = []
      while not s.accept('end'): body.append(s.stmt())
      return ('block', body)
    if v == 'if':
      s.next(); s.expect('('); c = s.expr(); s.expect(')'); t = s.stmt(); e = None
      if s.accept('else'): e = s.stmt()
      return ('if', c, t, e)
    if v == 'for':
      s.next(); s.expect('(')
      decl = None
      if s.peek()[1] == 'int': decl, _ = s.typespec()
      var = s.ident(); s.expect('='); init = s.expr(); s.expect(';')
      cond = s.expr(); s.expect(';')
      v2 = s.ident()
      if s.accept('+='): step = ('bin', '+', ('id', v2), s.expr())
      elif s.accept('-='): step = ('bin', '-', ('id', v2), s.expr())
      else: s.expect('='); step = s.expr()
      s.expect(')'); body = s.stmt()
      return ('for', decl, var, init, cond, step, body)
    l = s.postfix()
    if s.accept('='): nb = False
    elif s.accept('<='): nb = True
    else: raise SVSyntaxError(f"expected assignment, got {s.peek()}")
    e = s.expr(); s.expect(';'); return ('asg', l, e, nb)
  # ---- expressions
  PREC = [['||'],['&&'],['|'],['^'],['&'],['==','!='],['<','<=','>','>='],['<<','>>','<<<','>>>'],['+','-'],['*','/','%']]
  def expr(s):
    c = s.binary(0)
    if s.accept('?'):
      t = s.expr(); s.expect(':'); f = s.expr(); return ('cond', c, t, f)
    return c
  def binary(s, lvl):
    if lvl == len(s.PREC): return s.unary()
    l = s.binary(lvl+1)
    while s.peek()[0] == 'op' and s.peek()[1] in s.PREC[lvl]:
      op = s.next()[1]; r = s.binary(lvl+1); l = ('bin', op, l, r)
    return l
  def unary(s):
    k, v = s.peek()
    if k == 'op' and v in ('~','-','+','!','&','|','^'):
      s.next(); return ('un', v, s.unary())
    return s.postfix()
  def postfix(s):
    e = s.primary()
    while True:
      if s.accept('['):
        a = s.expr()
        if s.accept(':'): b = s.expr(); e = ('range', e, a, b)
        elif s.accept('+:'): b = s.expr(); e = ('pluscolon', e, a, b)
        else: e = ('index', e, a)
        s.expect(']')
      elif s.accept('.'): e = ('member', e, s.ident())
      else: return e
  def primary(s):
    k, v = s.next()
    if k == 'snum':
      m = re.match(r"(\d+)\s*'\s*([sS]?)([dDbBhHoO])\s*(.+)", v)
      w = int(m.group(1)); base = {'d':10,'b':2,'h':16,'o':8}[m.group(3).lower()]
      digits = m.group(4).replace('_','')
      if re.search('[xXzZ?]', digits): raise SVUnsupported("x/z literal")
      return ('num', w, int(digits, base), bool(m.group(2)))
    if k == 'num': return ('num', 32, int(v), True)
    if k == 'cast':
      w = int(v.split("'")[0]); s.expect('('); e = s.expr(); s.expect(')'); return ('cast', w, e)
    if k == 'id':
      if v in KEYWORDS_UNSUPPORTED: raise SVUnsupported(v)
      return ('id', v)
    if v == '(':
      e = s.expr(); s.expect(')'); return e
    if v == '{':
      first = s.expr()
      if s.accept('{'):
        parts = [s.expr()]
        while s.accept(','): parts.append(s.expr())
        s.expect('}'); s.expect('}'); return ('repl', first, ('concat', parts))
      parts = [first]
      while s.accept(','): parts.append(s.expr())
      s.expect('}'); return ('concat', parts)
    if v == "'{":
      parts = [s.expr()]
      while s.accept(','): parts.append(s.expr())
      s.expect('}'); return ('arrlit', parts)
    raise SVSyntaxError(f"unexpected token {v!r} in expression")

#---------------------------------------------------------------------------
# Types and values
#---------------------------------------------------------------------------
def const_int(e, env=None):
  v = z3.simplify(Eval(env or Env(None)).ev(e)[0])
  if not z3.is_bv_value(v): raise SVUnsupported("non-constant where constant required")
  return v.as_long()

class PType:           # packed type
  def __init__(s, kind, width, elem=None, n=None, fields=None, signed=False):
    s.kind, s.width, s.elem, s.n, s.fields, s.signed = kind, width, elem, n, fields, signed

def mk_ptype(P, base, pdims):
  if base[0] == 'logic': t = PType('vec', 1)
  elif base[0] == 'integer': return PType('vec', 32, signed=True)
  elif base[0] == 'intu': return PType('vec', 32)
  else:
    fs, off = [], 0
    for fname, fb, fpd in P.typedefs[base[1]]:
      fs.append((fname, mk_ptype(P, fb, fpd)))
    w = sum(f[1].width for f in fs)
    t = PType('struct', w, fields=fs)
  dims = [(const_int(a), const_int(b)) for a, b in pdims]
  for hi, lo in reversed(dims):
    n = hi - lo + 1
    if lo != 0: raise SVUnsupported("packed dim not [n:0]")
    if t.kind == 'vec' and t.width == 1 and t.n is None and t is not None and t.elem is None and not getattr(t, '_isarr', False):
      t = PType('vec', n); t._isarr = True   # innermost dimension of logic: plain vector
    else:
      t = PType('parr', n * t.width, elem=t, n=n)
  return t

class Env:
  def __init__(s, P):
    s.P = P; s.types = {}; s.udims = {}; s.vals = {}; s.consts = {}
    s.reads = None; s.writes = None
  def declare(s, name, pt, udims):
    if name in s.types: raise SVSyntaxError(f"{name} declared twice")
    s.types[name] = pt; s.udims[name] = udims

def mk_val(prefix, pt, udims, mk):
  if not udims: return mk(prefix, pt.width)
  return [mk_val(f"{prefix}[{i}]", pt, udims[1:], mk) for i in range(udims[0])]

def zext(e, w): return e if e.size() == w else z3.ZeroExt(w - e.size(), e)
def sext(e, w): return e if e.size() == w else z3.SignExt(w - e.size(), e)
def resize(e, w, signed):
  if e.size() == w: return e
  if e.size() > w: return z3.Extract(w-1, 0, e)
  return sext(e, w) if signed else zext(e, w)
def bv1(b): return z3.If(b, z3.BitVecVal(1,1), z3.BitVecVal(0,1))

class Eval:
  """expression evaluation with IEEE-1800 sizing: ev(e, ctxw) -> (bv, signed)"""
  def __init__(s, env): s.env = env
  # type of a postfix expression: returns (ptype, remaining unpacked dims)
  def rooted_in_concat(s, e):
    while e[0] in ('index', 'range', 'pluscolon', 'member'): e = e[1]
    return e[0] in ('concat', 'repl')

  def ltype(s, e):
    k = e[0]
    if k == 'id':
      if e[1] in s.env.consts: return s.env.consts[e[1]][0], s.env.consts[e[1]][1]
      if e[1] not in s.env.types: raise SVSyntaxError(f"undeclared identifier {e[1]}")
      return s.env.types[e[1]], s.env.udims[e[1]]
    if k == 'index':
      pt, ud = s.ltype(e[1])
      if ud: return pt, ud[1:]
      if pt.kind == 'parr': return pt.elem, []
      if pt.kind == 'vec': return PType('vec', 1), []
      raise SVSyntaxError("index into struct")
    if k == 'member':
      pt, ud = s.ltype(e[1])
      if ud or pt.kind != 'struct': raise SVSyntaxError(f"member access on non-struct")
      for fn, ft in pt.fields:
        if fn == e[2]: return ft, []
      raise SVSyntaxError(f"no field {e[2]}")
    if k == 'range':
      hi, lo = const_int(e[2], s.env), const_int(e[3], s.env); return PType('vec', hi-lo+1), []
    if k == 'pluscolon': return PType('vec', const_int(e[3], s.env)), []
    if k in ('concat', 'repl'): return PType('vec', s.selfw(e)), []
    raise SVSyntaxError(f"bit/part select or member access applied to an expression that cannot be selected ({k})")
  def selfw(s, e):
    k = e[0]
    if k == 'num': return e[1]
    if k in ('id','index','member','range','pluscolon'):
      pt, ud = s.ltype(e)
      if ud: raise SVUnsupported("unpacked array used as value")
      return pt.width
    if k == 'cast': return e[1]
    if k == 'concat': return sum(s.selfw(x) for x in e[1])
    if k == 'repl': return const_int(e[1], s.env) * s.selfw(e[2])
    if k == 'cond': return max(s.selfw(e[2]), s.selfw(e[3]))
    if k == 'un': return 1 if e[1] in ('!','&','|','^') else s.selfw(e[2])
    if k == 'bin':
      op = e[1]
      if op in ('==','!=','<','<=','>','>=','&&','||'): return 1
      if op in ('<<','>>','<<<','>>>'): return s.selfw(e[2])
      return max(s.selfw(e[2]), s.selfw(e[3]))
    raise SVUnsupported(k)
  def sign(s, e):
    k = e[0]
    if k == 'num': return e[3]
    if k == 'id':
      pt, ud = s.ltype(e); return pt.signed
    if k == 'cast': return s.sign(e[2])
    if k == 'cond': return s.sign(e[2]) and s.sign(e[3])
    if k == 'un': return False if e[1] in ('!','&','|','^') else s.sign(e[2])
    if k == 'bin':
      op = e[1]
      if op in ('==','!=','<','<=','>','>=','&&','||'): return False
      if op in ('<<','>>','<<<','>>>'): return s.sign(e[2])
      return s.sign(e[2]) and s.sign(e[3])
    return False
  def ev(s, e, ctxw=None):
    """evaluate e in a context of width ctxw (None: self-determined) -> (bv of width max(selfw,ctxw), signed)"""
    W = max(s.selfw(e), ctxw or 0); S = s.sign(e)
    return s.evx(e, W, S), S
  def evx(s, e, W, S):
    """evaluate with propagated width W and signedness S (context-determined position)"""
    k = e[0]
    if k == 'num': return resize(z3.BitVecVal(e[2], e[1]), W, S and e[3])
    if k in ('id','index','member','range','pluscolon'):
      if k != 'id' and s.rooted_in_concat(e):
        v = s.select_of_value(e); return resize(v, W, False)
      v = s.read(e); pt, _ = s.ltype(e); return resize(v, W, S and pt.signed)
    if k == 'cast':
      v, sg = s.ev(e[2]); v = resize(v, e[1], sg); return resize(v, W, S and sg)
    if k == 'concat':
      v = [s.ev(x)[0] for x in e[1]]; v = v[0] if len(v) == 1 else z3.Concat(*v); return resize(v, W, False)
    if k == 'repl':
      n = const_int(e[1], s.env); v = s.ev(e[2])[0]; v = v if n == 1 else z3.Concat(*([v]*n)); return resize(v, W, False)
    if k == 'cond':
      c = s.ev(e[1])[0]; return z3.If(c != 0, s.evx(e[2], W, S), s.evx(e[3], W, S))
    if k == 'un':
      op = e[1]
      if op == '~': return ~s.evx(e[2], W, S)
      if op == '-': return -s.evx(e[2], W, S)
      if op == '+': return s.evx(e[2], W, S)
      v = s.ev(e[2])[0]
      if op == '!': r = bv1(v == 0)
      elif op == '&': r = z3.BVRedAnd(v)
      elif op == '|': r = z3.BVRedOr(v)
      elif op == '^':
        r = z3.Extract(0,0,v)
        for i in range(1, v.size()): r = r ^ z3.Extract(i,i,v)
      return resize(r, W, False)
    if k == 'bin':
      op, l, r = e[1], e[2], e[3]
      if op in ('==','!=','<','<=','>','>='):
        w = max(s.selfw(l), s.selfw(r)); sg = s.sign(l) and s.sign(r)
        a, b = s.evx(l, w, sg), s.evx(r, w, sg)
        c = {'==': a == b, '!=': a != b,
             '<': (a < b) if sg else z3.ULT(a,b), '<=': (a <= b) if sg else z3.ULE(a,b),
             '>': (a > b) if sg else z3.UGT(a,b), '>=': (a >= b) if sg else z3.UGE(a,b)}[op]
        return resize(bv1(c), W, False)
      if op in ('&&','||'):
        a, b = s.ev(l)[0] != 0, s.ev(r)[0] != 0
        return resize(bv1(z3.And(a,b) if op == '&&' else z3.Or(a,b)), W, False)
      if op in ('<<','>>','<<<','>>>'):
        a = s.evx(l, W, S); b = s.ev(r)[0]
        ww = max(W, b.size()); aa, bb = zext(a, ww) if not (S and op == '>>>') else sext(a, ww), zext(b, ww)
        if op in ('<<','<<<'): res = aa << bb
        elif op == '>>' or not S: res = z3.LShR(aa, bb)
        else: res = aa >> bb
        return z3.Extract(W-1, 0, res)
      a, b = s.evx(l, W, S), s.evx(r, W, S)
      if op == '+': return a + b
      if op == '-': return a - b
      if op == '*': return a * b
      if op == '&': return a & b
      if op == '|': return a | b
      if op == '^': return a ^ b
      if op == '/': return (a / b) if S else z3.UDiv(a, b)
      if op == '%': return z3.SRem(a, b) if S else z3.URem(a, b)
    raise SVUnsupported(f"expr {k} {e[1] if len(e)>1 else ''}")
  def select_of_value(s, e):
    """bit/part select of a concatenation (self-determined operand)"""
    k = e[0]
    if k in ('concat', 'repl'): return s.ev(e)[0]
    base = s.select_of_value(e[1])
    if k == 'index':
      i = s.ev(e[2])[0]
      w = base.size()
      sh = z3.LShR(base, zext(i, w) if i.size() <= w else z3.Extract(w - 1, 0, i))
      inr = z3.ULT(zext(i, 32) if i.size() < 32 else i, z3.BitVecVal(w, max(32, i.size())))
      return z3.If(inr, z3.Extract(0, 0, sh), z3.BitVecVal(0, 1))
    if k == 'range':
      hi, lo = const_int(e[2], s.env), const_int(e[3], s.env)
      if not (0 <= lo <= hi < base.size()): raise SVSyntaxError(f"part select [{hi}:{lo}] out of range of a {base.size()}-bit concatenation")
      return z3.Extract(hi, lo, base)
    raise SVUnsupported(f"{k} on a concatenation")

  # ---- reads / writes of postfix expressions
  def path(s, e):
    """-> (name, [unpacked idx exprs(bv or int)], packed offset bv-or-int, width, ptype)"""
    k = e[0]
    if k == 'id':
      pt, ud = s.ltype(e); return e[1], [], 0, pt.width, pt, list(ud)
    name, uidx, off, w, pt, ud = s.path(e[1])
    if k == 'index':
      i = z3.simplify(s.ev(e[2])[0]); i = i.as_long() if z3.is_bv_value(i) else i
      if ud: return name, uidx + [(i, ud[0])], off, w, pt, ud[1:]
      if pt.kind == 'parr': ew = pt.elem.width; return name, uidx, s.addoff(off, i, ew, pt.n), ew, pt.elem, []
      if pt.kind == 'vec': return name, uidx, s.addoff(off, i, 1, pt.width), 1, PType('vec',1), []
      raise SVSyntaxError("index into struct")
    if k == 'member':
      o = pt.width
      for fn, ft in pt.fields:
        o -= ft.width
        if fn == e[2]: return name, uidx, s.addoff(off, o, 1, None), ft.width, ft, []
      raise SVSyntaxError(f"no field {e[2]}")
    if k == 'range':
      hi, lo = const_int(e[2], s.env), const_int(e[3], s.env)
      if not (0 <= lo <= hi < pt.width): raise SVSyntaxError(f"part select [{hi}:{lo}] out of range of {pt.width}-bit {name}")
      return name, uidx, s.addoff(off, lo, 1, None), hi-lo+1, PType('vec', hi-lo+1), []
    if k == 'pluscolon':
      b = z3.simplify(s.ev(e[2])[0]); b = b.as_long() if z3.is_bv_value(b) else b
      n = const_int(e[3], s.env); return name, uidx, s.addoff(off, b, 1, None), n, PType('vec', n), []
  @staticmethod
  def addoff(off, i, scale, limit):
    if isinstance(off, int) and isinstance(i, int): return off + i*scale
    W = 16
    a = z3.BitVecVal(off, W) if isinstance(off, int) else off
    b = z3.BitVecVal(i, W) if isinstance(i, int) else zext(i, W) if i.size() <= W else z3.Extract(W-1,0,i)
    return a + b * scale
  @staticmethod
  def acc(name, uidx, off, w):
    ui = tuple(i if isinstance(i, int) else None for i, n in uidx)
    if isinstance(off, int): return (name, ui, off, off + w)
    return (name, ui, 0, 1 << 30)
  def getvar(s, name):
    if name in s.env.consts: return s.env.consts[name][2]
    return s.env.vals[name]
  def read(s, e):
    name, uidx, off, w, pt, ud = s.path(e)
    if ud: raise SVUnsupported("whole unpacked array read")
    if s.env.reads is not None: s.env.reads.add(s.acc(name, uidx, off, w))
    v = s.getvar(name)
    def sel(v, idxs):
      if not idxs: return v
      (i, n), rest = idxs[0], idxs[1:]
      if isinstance(i, int):
        if not 0 <= i < n: return None
        return sel(v[i], rest)
      r = None
      for k in reversed(range(n)):
        x = sel(v[k], rest)
        r = x if r is None else z3.If(i == k, x, r)
      # out of range -> 0 in two-state
      x0 = r
      return z3.If(z3.ULT(zext(i, 32) if i.size() < 32 else i, n), x0, z3.BitVecVal(0, x0.size()))
    v = sel(v, uidx)
    if v is None: return z3.BitVecVal(0, w)
    if isinstance(off, int):
      if off + w > v.size() or off < 0: return z3.BitVecVal(0, w)
      return z3.Extract(off + w - 1, off, v)
    sh = z3.LShR(v, zext(off, v.size()) if off.size() <= v.size() else z3.Extract(v.size()-1, 0, off))
    return z3.Extract(w-1, 0, sh) if v.size() >= w else zext(sh, w)
  def write(s, e, val, target=None):
    name, uidx, off, w, pt, ud = s.path(e)
    tv = s.env.vals if target is None else target.vals
    if ud: raise SVUnsupported("whole unpacked array write")
    if name in s.env.consts: raise SVSyntaxError(f"assignment to localparam {name}")
    if s.env.writes is not None: s.env.writes.add(s.acc(name, uidx, off, w))
    val = resize(val, w, False)
    def upd(old):
      if isinstance(off, int):
        if off == 0 and w == old.size(): return val
        parts = []
        if off + w < old.size(): parts.append(z3.Extract(old.size()-1, off+w, old))
        parts.append(val)
        if off > 0: parts.append(z3.Extract(off-1, 0, old))
        return z3.Concat(*parts) if len(parts) > 1 else parts[0]
      W = old.size(); o = zext(off, W) if off.size() <= W else z3.Extract(W-1, 0, off)
      mask = zext(z3.BitVecVal((1 << w) - 1, w), W) << o
      return (old & ~mask) | (zext(val, W) << o)
    def rec(v, idxs, guard):
      if not idxs:
        nv = upd(v); return nv if guard is None else z3.If(guard, nv, v)
      (i, n), rest = idxs[0], idxs[1:]
      if isinstance(i, int):
        if not 0 <= i < n: return v
        return [rec(x, rest, guard) if k == i else x for k, x in enumerate(v)]
      return [rec(x, rest, (i == k) if guard is None else z3.And(guard, i == k)) for k, x in enumerate(v)]
    tv[name] = rec(tv[name], uidx, None)
