"""Validation of the svsem oracle itself (it is the largest trusted piece):

 (i)  hand-derived expression / statement vectors from IEEE 1800-2017 (sizing, signedness, selects, packed layout,
      blocking vs non-blocking) -- expected values were worked out by hand from the standard, not by running pymtl3;
 (ii) the repository's own TV_IN / TV_OUT test vectors of passes/testcases/test_cases.py are pushed through svsem
      (translate with the real pass, then reset + vectors exactly like TestVectorSimulator) and must give the
      recorded outputs.
"""
import re

import z3

from .sem import SVSyntaxError, SVUnsupported
from .elab import Design

# ---------------------------------------------------------------------------------------------------------
# (i) vectors: (module body, {input: value}, {output: expected}, comment)
# ---------------------------------------------------------------------------------------------------------
HDR = "module t ( input logic [15:0] a, input logic [15:0] b, input logic [3:0] c, input logic [0:0] clk, output logic [31:0] y, output logic [16:0] y17, output logic [15:0] y16, output logic [3:0] y4, output logic [0:0] y1 );\n"
V = [
  ("assign y16 = (a + b) >> 1;", dict(a=0x8000, b=0x8000), dict(y16=0x0000), "11.6.2: 16-bit context, the carry is lost before the shift"),
  ("assign y17 = (a + b) >> 1;", dict(a=0x8000, b=0x8000), dict(y17=0x8000), "17-bit context keeps the carry"),
  ("assign y16 = {a + b} >> 1;", dict(a=0xffff, b=0x0001), dict(y16=0x0000), "concatenation operands are self-determined"),
  ("assign y17 = {a + b} >> 1;", dict(a=0xffff, b=0x0001), dict(y17=0x0000), "self-determined 16-bit sum inside {} even in a 17-bit context"),
  ("assign y = a * b;", dict(a=0xffff, b=0xffff), dict(y=0xfffe0001), "32-bit context multiplication"),
  ("assign y16 = a * b;", dict(a=0xffff, b=0xffff), dict(y16=0x0001), "truncated to 16 bits"),
  ("assign y4 = 4'(a) + 4'd1;", dict(a=0x123f), dict(y4=0x0), "size cast truncates, then 4-bit add wraps"),
  ("assign y = 32'(a) + 32'd1;", dict(a=0xffff), dict(y=0x10000), "size cast widens (unsigned)"),
  ("assign y1 = a < b;", dict(a=0x8000, b=0x0001), dict(y1=0), "unsigned comparison"),
  ("assign y1 = (a + b) == 17'h10000;", dict(a=0xffff, b=0x0001), dict(y1=1), "comparison operands sized to the larger (17 bits): carry kept"),
  ("assign y1 = (a + b) == 16'h0000;", dict(a=0xffff, b=0x0001), dict(y1=1), "16-bit comparison: carry lost"),
  ("assign y16 = a >> b;", dict(a=0x8000, b=0x0004), dict(y16=0x0800), "shift amount self-determined"),
  ("assign y16 = a << c;", dict(a=0x0001, c=0xf), dict(y16=0x8000), "4-bit shift amount"),
  ("assign y16 = a >> 16'd16;", dict(a=0xffff), dict(y16=0), "shift by the width gives 0"),
  ("assign y = a << 5'd16;", dict(a=0xffff), dict(y=0xffff0000), "context width 32 applies to the left operand of <<"),
  ("assign y1 = & c;", dict(c=0xf), dict(y1=1), "reduction and"),
  ("assign y1 = | c;", dict(c=0x0), dict(y1=0), "reduction or"),
  ("assign y1 = ^ c;", dict(c=0x7), dict(y1=1), "reduction xor"),
  ("assign y1 = ( | a & b );", dict(a=0x0001, b=0x0002), dict(y1=0), "unary reduction binds tighter than binary &: (|a) & b truncated to 1 bit"),
  ("assign y4 = ( | a ) & c;", dict(a=0x0100, c=0xf), dict(y4=0x1), "(|a) is 1 bit, zero-extended to 4"),
  ("assign y16 = c ? a : b;", dict(a=1, b=2, c=0), dict(y16=2), "conditional"),
  ("assign y17 = c[0] ? a + b : 17'd0;", dict(a=0xffff, b=1, c=1), dict(y17=0x10000), "branches are context-determined: 17 bits"),
  ("assign y16 = ~a;", dict(a=0x00ff), dict(y16=0xff00), "bitwise not at 16 bits"),
  ("assign y = ~a;", dict(a=0x00ff), dict(y=0xffffff00), "operand extended to 32 bits BEFORE ~"),
  ("assign y = -a;", dict(a=1), dict(y=0xffffffff), "unary minus at context width"),
  ("assign y16 = a - b;", dict(a=0, b=1), dict(y16=0xffff), "wrap-around subtraction"),
  ("assign y16 = a / b;", dict(a=100, b=7), dict(y16=14), "unsigned division"),
  ("assign y16 = a % b;", dict(a=100, b=7), dict(y16=2), "unsigned modulo"),
  ("assign y4 = a[7:4];", dict(a=0x1234), dict(y4=0x3), "constant part select"),
  ("assign y4 = a[4 +: 4];", dict(a=0x1234), dict(y4=0x3), "indexed part select"),
  ("assign y1 = a[c];", dict(a=0x0010, c=4), dict(y1=1), "variable bit select"),
  ("assign y4 = { a[0], b[0], c[1:0] };", dict(a=1, b=0, c=0x2), dict(y4=0b1010), "concatenation order: first operand most significant"),
  ("assign y16 = { 4 { c } };", dict(c=0xa), dict(y16=0xaaaa), "replication"),
  ("assign y16 = { { 12 { c[3] } }, c };", dict(c=0x8), dict(y16=0xfff8), "sign extension idiom"),
  ("assign y = { a, b }[23:8];", dict(a=0x1234, b=0x5678), dict(y=0x3456), "part select of a concatenation (11.4.12)"),
  ("logic [15:0] w; assign w = a + b; assign y17 = w;", dict(a=0xffff, b=2), dict(y17=1), "truncation on assignment to a 16-bit variable, then zero-extension"),
  ("typedef struct packed { logic [3:0] hi; logic [7:0] mid; logic [3:0] lo; } T;", None, None, None),
]
V2 = [   # (full text, top, inputs, expected, comment)
  ("typedef struct packed { logic [3:0] hi; logic [7:0] mid; logic [3:0] lo; } T;\n"
   "module t ( input T s, input logic [15:0] a, output logic [7:0] m, output logic [3:0] h, output T o );\n"
   " assign m = s.mid; assign h = s.hi; assign o = a; endmodule",
   't', dict(s=0xa5c3, a=0x1234), dict(m=0x5c, h=0xa, o=0x1234), "packed struct: first member most significant"),
  ("module t ( input logic [3:0][7:0] p, input logic [1:0] i, output logic [7:0] e, output logic [7:0] e3 );\n"
   " assign e = p[i]; assign e3 = p[3]; endmodule",
   't', dict(p=0xaabbccdd, i=1), dict(e=0xcc, e3=0xaa), "packed array: highest index most significant"),
  ("module t ( input logic [7:0] u [0:2], input logic [1:0] i, output logic [7:0] e );\n assign e = u[i]; endmodule",
   't', dict(u=[1, 2, 3], i=3), dict(e=0), "two-state out-of-range read of an unpacked array gives 0"),
  ("module t ( input logic [7:0] a, input logic [7:0] b, output logic [7:0] x, output logic [7:0] y );\n"
   " always_comb begin : blk x = a; x = x + b; y = x; if ( a[0] ) y = 8'd7; end endmodule",
   't', dict(a=2, b=3), dict(x=5, y=5), "blocking assignments execute in order"),
  ("module t ( input logic [7:0] a, output logic [7:0] y );\n"
   " always_comb begin : blk y = 8'd0; for ( int unsigned i = 1'd0; i < 4'd8; i += 1'd1 ) if ( a[3'(i)] ) y = 8'(i); end endmodule",
   't', dict(a=0b01010000), dict(y=6), "for loop, last matching assignment wins"),
  ("module t ( input logic [7:0] a, output logic [7:0] y );\n"
   " integer k; always_comb begin : blk y = 8'd0; for ( k = 0; k < 3; k = k + 1 ) y = y + a; end endmodule",
   't', dict(a=5), dict(y=15), "integer loop variable declared outside (Verilog-2001 style)"),
]


def run_vectors():
  """returns (count, failures)"""
  bad = []; n = 0
  for body, ins, exp, why in V:
    if ins is None: continue
    src = HDR + " " + body + "\nendmodule\n"
    n += 1
    try:
      D = Design(src, 't')
      vals = D.zero_vals()
      for k, v in ins.items(): vals[k] = z3.BitVecVal(v, vals[k].size())
      vals = D.settle(vals)
      for k, v in exp.items():
        got = z3.simplify(vals[k])
        if not z3.is_bv_value(got) or got.as_long() != v: bad.append((body, k, v, str(got), why))
    except Exception as e:
      bad.append((body, 'exception', None, f"{type(e).__name__}: {e}", why))
  for src, top, ins, exp, why in V2:
    n += 1
    try:
      D = Design(src, top)
      vals = D.zero_vals()
      for k, v in ins.items():
        if isinstance(v, list): vals[k] = [z3.BitVecVal(x, vals[k][0].size()) for x in v]
        else: vals[k] = z3.BitVecVal(v, vals[k].size())
      vals = D.settle(vals)
      for k, v in exp.items():
        got = z3.simplify(vals[k])
        if not z3.is_bv_value(got) or got.as_long() != v: bad.append((src[:60], k, v, str(got), why))
    except Exception as e:
      bad.append((src[:60], 'exception', None, f"{type(e).__name__}: {e}", why))
  # non-blocking: swap
  src = ("module t ( input logic [0:0] clk, input logic [0:0] ld, input logic [7:0] a, input logic [7:0] b, output logic [7:0] x, output logic [7:0] y );\n"
         " always_ff @(posedge clk) begin : r if ( ld ) begin x <= a; y <= b; end else begin x <= y; y <= x; end end endmodule")
  n += 1
  try:
    D = Design(src, 't'); vals = D.zero_vals()
    vals['ld'] = z3.BitVecVal(1, 1); vals['a'] = z3.BitVecVal(3, 8); vals['b'] = z3.BitVecVal(9, 8)
    vals = D.settle(D.edge(D.settle(vals)))
    vals['ld'] = z3.BitVecVal(0, 1)
    vals = D.settle(D.edge(D.settle(vals)))
    got = (z3.simplify(vals['x']).as_long(), z3.simplify(vals['y']).as_long())
    if got != (9, 3): bad.append(('nonblocking swap', 'x,y', (9, 3), got, 'non-blocking reads see pre-edge values'))
  except Exception as e:
    bad.append(('nonblocking swap', 'exception', None, f"{type(e).__name__}: {e}", ''))
  # malformed inputs must be rejected
  for src, why in [("module t ( input logic a ); assign b = a; endmodule", "undeclared identifier"),
                   ("module t ( input logic a, output logic y ); assign y = a; assign y = ~a; endmodule", "two drivers"),
                   ("module t ( input logic a, output logic y ); always_comb begin y = a; endmodule", "unbalanced begin/end"),
                   ("module t ( input logic a, output logic y ); logic y; assign y = a; endmodule", "declared twice"),
                   ("module t ( input logic a, output logic y ); u u0 ( .a(a) ); endmodule", "undefined module")]:
    n += 1
    try:
      D = Design(src, 't'); v = D.settle(D.zero_vals()); D.edge(v); D.check_drivers()
      bad.append((src[:50], 'accepted', None, 'no error', why))
    except SVSyntaxError:
      pass
    except Exception as e:
      bad.append((src[:50], 'wrong error', None, f"{type(e).__name__}: {e}", why))
  return n, bad


# ---------------------------------------------------------------------------------------------------------
# (ii) the repository's TV vectors through svsem
# ---------------------------------------------------------------------------------------------------------
class _Proxy:
  def __init__(s, model, path): object.__setattr__(s, '_m', model); object.__setattr__(s, '_p', path)
  def __getattr__(s, f): return _Proxy(s._m, s._p + '.' + f)
  def __getitem__(s, i): return _Proxy(s._m, s._p + f'[{int(i)}]')
  def __setattr__(s, f, v): pass
  def __setitem__(s, i, v): pass
  def __imatmul__(s, v): s._m.write(s._p, v); return s
  def __eq__(s, v): return s._m.read(s._p) == s._m.pack(v)
  def __ne__(s, v): return not (s == v)
  __hash__ = None


class SVModel:
  """looks enough like a simulated component for the repo's tv_in / tv_out functions"""
  def __init__(s, tv):
    d = object.__setattr__
    d(s, 'tv', tv); d(s, 'D', tv.D); d(s, 'vals', tv.D.zero_vals()); d(s, 'port', {})
    d(s, 'sigs', {repr(x)[2:]: x for x in tv.ins + tv.outs})
    from checks._tv import leaf_layout
    d(s, 'lay', {n: leaf_layout(tv.sim.sig_value[repr(x)], tv.Bits, '') for n, x in s.sigs.items()})

  def __getattr__(s, f): return _Proxy(s, f)
  def __setattr__(s, f, v): pass

  @staticmethod
  def pack(v):
    return int(v.to_bits()) if hasattr(v, 'to_bits') else int(v)

  def locate(s, path):
    best = None
    for n in s.sigs:
      if path == n or path.startswith(n + '.') or path.startswith(n + '['):
        if best is None or len(n) > len(best): best = n
    if best is None: raise KeyError(path)
    rest = path[len(best):]
    lay, w = s.lay[best]
    sel = [(p, o, wd) for p, o, wd in lay if p == rest or p.startswith(rest + '.') or p.startswith(rest + '[') or rest == '']
    lo = min(o for p, o, wd in sel); hi = max(o + wd for p, o, wd in sel)
    return best, lo, hi - lo, w

  def write(s, path, v):
    n, off, wd, w = s.locate(path)
    cur = s.port.get(n, 0)
    s.port[n] = (cur & ~(((1 << wd) - 1) << off)) | ((s.pack(v) & ((1 << wd) - 1)) << off)
    s.tv.sv_set(s.vals, s.sigs[n], z3.BitVecVal(s.port[n], w))

  def read(s, path):
    n, off, wd, w = s.locate(path)
    x = 0
    for label, term, o, ww in s.tv.sv_get(s.vals, s.sigs[n]):
      t = z3.simplify(term)
      if not z3.is_bv_value(t): raise SVUnsupported(f"{label} did not reduce to a constant")
      x |= t.as_long() << o
    return (x >> off) & ((1 << wd) - 1)

  def settle(s): object.__setattr__(s, 'vals', s.D.settle(s.vals))
  def tick(s): object.__setattr__(s, 'vals', s.D.settle(s.D.edge(s.D.settle(s.vals))))

  def set_reset(s, v):
    for x in s.tv.ins:
      if repr(x) == 's.reset': s.write('reset', v)


def run_tv_case(case_name, backend):
  """-> ('ok', nvectors) | ('skip', why) | ('fail', message)"""
  import pymtl3.passes.testcases.test_cases as TC
  from checks._tv import TV
  C = getattr(TC, case_name)
  if not all(hasattr(C, a) for a in ('TV_IN', 'TV_OUT', 'TV')): return ('skip', 'no vectors')
  try:
    tv = TV('case:' + case_name, C.DUT, backend, 1); tv.setup()
  except (SVSyntaxError, SVUnsupported) as e: return ('skip', f"svsem: {e}")
  except Exception as e: return ('skip', f"not translatable: {type(e).__name__}")
  m = SVModel(tv)
  try:
    # sim_reset(): reset high for three edges, then low
    m.set_reset(1); m.settle(); m.tick(); m.tick(); m.tick(); m.set_reset(0); m.settle()
    for i, vec in enumerate(C.TV):
      C.TV_IN(m, vec)
      m.settle()
      try:
        C.TV_OUT(m, vec)
      except AssertionError:
        return ('fail', f"{case_name} [{backend}] vector {i} {vec}: svsem outputs do not match the recorded outputs")
      m.tick()
  except (SVSyntaxError, SVUnsupported, KeyError) as e:
    return ('skip', f"{type(e).__name__}: {e}")
  return ('ok', len(C.TV))
