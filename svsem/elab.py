"""svsem.elab -- flatten a parsed design and evaluate it symbolically: settle (syntactic fixed point of all
continuous assignments and always_comb processes) and edge (always_ff with pre-edge reads), plus the
well-formedness analysis 'every bit has exactly one driver'."""
import copy, z3
from .sem import *

def rename(e, pfx, locals_):
  if isinstance(e, tuple):
    if e and e[0] == 'for': return ('for', e[1], pfx + e[2]) + tuple(rename(x, pfx, locals_) for x in e[3:])
    if e and e[0] == 'id': return ('id', pfx + e[1]) if e[1] not in locals_ else e
    if e and e[0] == 'member': return ('member', rename(e[1], pfx, locals_), e[2])
    return tuple(rename(x, pfx, locals_) for x in e)
  if isinstance(e, list): return [rename(x, pfx, locals_) for x in e]
  return e

def simp(v): return [simp(x) for x in v] if isinstance(v, list) else z3.simplify(v)
def deepvals(v): return [deepvals(x) for x in v] if isinstance(v, list) else v
def merge(c, a, b):
  if isinstance(a, list): return [merge(c, x, y) for x, y in zip(a, b)]
  return a if a is b else z3.If(c, a, b)

class Design:
  def __init__(s, src, top=None):
    s.P = Parser(src).parse()
    s.top = top or list(s.P.modules)[-1]
    s.env = Env(s.P); s.procs = []; s.ffs = []; s.inputs = []; s.outputs = []; s.drivers = {}
    s.rounds = 0
    s.acc_w = {}; s.acc_r = {}; s.loopvars = set()
    s.flatten(s.top, '', True)
  def flatten(s, mname, pfx, is_top=False):
    if mname not in s.P.modules: raise SVSyntaxError(f"module {mname} not defined")
    m = s.P.modules[mname]; E = Eval(s.env)
    for d, base, pd, name, ud in m['ports']:
      s.env.declare(pfx+name, mk_ptype(s.P, base, pd), [const_int(b)-const_int(a)+1 for a,b in ud])
      if is_top: (s.inputs if d == 'input' else s.outputs).append(pfx+name)
    for it in m['items']:
      if it[0] == 'decl':
        _, base, pd, name, ud = it
        s.env.declare(pfx+name, mk_ptype(s.P, base, pd), [const_int(b)-const_int(a)+1 for a,b in ud])
        if base[0] in ('integer', 'intu'): s.loopvars.add(pfx+name)
    for it in m['items']:
      if it[0] == 'localparam':
        _, base, pd, name, ud, e = it
        pt = mk_ptype(s.P, base, pd); uds = [const_int(b)-const_int(a)+1 for a,b in ud]
        def cv(e, uds):
          if uds: 
            assert e[0] == 'arrlit' and len(e[1]) == uds[0]; return [cv(x, uds[1:]) for x in e[1]]
          return resize(E.ev(rename(e, pfx, set()))[0], pt.width, False)
        s.env.consts[pfx+name] = (pt, uds, cv(e, uds))
    for it in m['items']:
      k = it[0]
      if k == 'assign': s.add_assign(rename(it[1], pfx, set()), rename(it[2], pfx, set()))
      elif k == 'comb': s.procs.append(('comb', rename(it[1], pfx, set())))
      elif k == 'ff':   s.ffs.append(rename(it[1], pfx, set()))
      elif k == 'inst':
        _, mod, inst, conns = it
        cp = pfx + inst + '.'
        s.flatten(mod, cp)
        dirs = {p[3]: p[0] for p in s.P.modules[mod]['ports']}
        seen = set()
        for p, e in conns:
          if p not in dirs: raise SVSyntaxError(f"no port {p} on {mod}")
          if p in seen: raise SVSyntaxError(f"port {p} connected twice")
          seen.add(p)
          e = rename(e, pfx, set())
          if dirs[p] == 'input': s.add_assign(('id', cp+p), e)
          else: s.add_assign(e, ('id', cp+p))
        if seen != set(dirs): raise SVSyntaxError(f"unconnected ports {set(dirs)-seen} on {inst}")
  def add_assign(s, l, r):
    pt, ud = Eval(s.env).ltype(l)
    if ud:
      for i in range(ud[0]): s.add_assign(('index', l, ('num', 32, i, True)), ('index', r, ('num', 32, i, True)))
    else: s.procs.append(('assign', l, r))
  # ---- statement execution
  def exec(s, st, E, nb=None):
    k = st[0]
    if k == 'block':
      for x in st[1]: s.exec(x, E, nb)
    elif k == 'asg':
      _, l, e, isnb = st
      pt, ud = E.ltype(l)
      v, sg = E.ev(e, pt.width); v = resize(v, pt.width, sg)
      if isnb: E.write(l, v, nb)
      else: E.write(l, v)
    elif k == 'if':
      c = z3.simplify(E.ev(st[1])[0] != 0)
      if z3.is_true(c): s.exec(st[2], E, nb)
      elif z3.is_false(c):
        if st[3]: s.exec(st[3], E, nb)
      else:
        base = {n: deepvals(v) for n, v in E.env.vals.items()}; nbase = {n: deepvals(v) for n, v in nb.vals.items()} if nb else None
        s.exec(st[2], E, nb); tv = E.env.vals; tnb = nb.vals if nb else None
        E.env.vals = {n: deepvals(v) for n, v in base.items()}
        if nb: nb.vals = {n: deepvals(v) for n, v in nbase.items()}
        if st[3]: s.exec(st[3], E, nb)
        E.env.vals = {n: merge(c, tv[n], E.env.vals[n]) for n in tv}
        if nb: nb.vals = {n: merge(c, tnb[n], nb.vals[n]) for n in tnb}
    elif k == 'for':
      _, decl, var, init, cond, step, body = st
      if decl is not None and var not in E.env.types: E.env.declare(var, mk_ptype(s.P, decl, []), [])
      s.loopvars.add(var)
      pt = E.env.types[var]
      def setv(e):
        v, sg = E.ev(e, pt.width); E.env.vals[var] = z3.simplify(resize(v, pt.width, sg))
      setv(init); n = 0
      while True:
        c = z3.simplify(E.ev(cond)[0] != 0)
        if z3.is_false(c): break
        if not z3.is_true(c): raise SVUnsupported("non-constant loop condition")
        s.exec(body, E, nb)
        before = E.env.vals[var]
        setv(step); n += 1
        after = E.env.vals[var]
        if not pt.signed and z3.is_bv_value(before) and z3.is_bv_value(after) and step[0] == 'bin':
          # an `int unsigned` loop variable that wraps around keeps the condition true: the loop does not terminate
          if (step[1] == '-' and after.as_long() > before.as_long()) or (step[1] == '+' and after.as_long() < before.as_long()):
            raise SVSyntaxError(f"for-loop variable {var} wraps around ({before.as_long()} -> {after.as_long()}, unsigned): the loop does not terminate")
        if n > 4096: raise SVUnsupported("loop bound")
    else: raise SVUnsupported(k)
  def _nbwrite(s, E, nb, l, v):
    # compute the path in the *current* env, apply the update to nb.vals
    cur = E.env; E.env = cur
    name, uidx, off, w, pt, ud = E.path(l)
    tmp = Eval(nb)
    # reuse write() machinery but with precomputed path: emulate by temporarily monkeypatching path
    tmp.path = lambda e: (name, uidx, off, w, pt, ud)
    tmp.write(l, v)
  # ---- whole-design evaluation
  def settle(s, vals, max_rounds=40):
    """evaluate all continuous/comb processes repeatedly until no term changes (syntactic fixed point)"""
    env = s.env; env.vals = {n: deepvals(v) for n, v in vals.items()}
    def flat(v, out):
      if isinstance(v, list):
        for x in v: flat(x, out)
      else: out.append(v)
    def sig():
      out = []
      for n in sorted(env.vals): flat(env.vals[n], out)
      return out
    s.rounds = 0
    prev = sig()
    for r in range(max_rounds):
      for p in s.procs: s.run_proc(p)
      env.vals = {n: simp(v) for n, v in env.vals.items()}
      cur = sig(); s.rounds += 1
      if len(cur) == len(prev) and all(a.eq(b) for a, b in zip(cur, prev)): return env.vals
      if r >= 6 and len(cur) == len(prev):
        # z3.simplify is not syntactically stable (argument order of AC operators): after a few rounds decide the
        # fixed point semantically -- every variable equal to its previous-round value for all inputs
        diff = [a != b for a, b in zip(cur, prev) if not a.eq(b)]
        sv = z3.Solver(); sv.set('timeout', 20000); sv.add(z3.Or(*diff))
        if sv.check() == z3.unsat: return env.vals
      prev = cur
    raise SVUnsupported("no syntactic fixed point: combinational loop?")
  def run_proc(s, p):
    E = Eval(s.env)
    pid = id(p)
    track = pid not in s.acc_w
    if track: s.env.reads, s.env.writes = set(), set()
    try:
      s._run_proc(p, E)
    finally:
      if track:
        s.acc_w[pid] = (s.describe(p), s.env.writes); s.acc_r[pid] = s.env.reads
        s.env.reads = s.env.writes = None

  def describe(s, p):
    if p[0] == 'assign': return 'assign ' + s.show(p[1])
    return p[0] + ' process' + (f" '{p[2]}'" if len(p) > 2 and p[2] else '')

  @staticmethod
  def show(e):
    k = e[0]
    if k == 'id': return e[1]
    if k == 'index': return f"{Design.show(e[1])}[{Design.show(e[2])}]"
    if k == 'member': return f"{Design.show(e[1])}.{e[2]}"
    if k == 'num': return str(e[2])
    if k == 'range': return f"{Design.show(e[1])}[{Design.show(e[2])}:{Design.show(e[3])}]"
    return '...'

  def _run_proc(s, p, E):
    if p[0] == 'assign':
      pt, ud = E.ltype(p[1]); v, sg = E.ev(p[2], pt.width); E.write(p[1], resize(v, pt.width, sg))
    else: s.exec(p[1], E)
  def edge(s, vals):
    """posedge: returns new vals (only ff-assigned variables change)"""
    env = s.env; env.vals = {n: deepvals(v) for n, v in vals.items()}
    nb = Env(s.P); nb.types, nb.udims, nb.consts = env.types, env.udims, env.consts
    nb.vals = {n: deepvals(v) for n, v in vals.items()}
    for st in s.ffs:
      track = id(st) not in s.acc_w
      if track: env.reads, env.writes = set(), set()
      try:
        s.exec(st, Eval(env), nb)
      finally:
        if track:
          s.acc_w[id(st)] = ('always_ff process', env.writes); s.acc_r[id(st)] = env.reads
          env.reads = env.writes = None
    return nb.vals

  # ---- well-formedness: every bit of every variable has exactly one driver -----------------------------
  def check_drivers(s):
    """call after at least one settle() and one edge(); raises SVSyntaxError on 0 or >= 2 drivers"""
    drv = {}      # name -> [(who, uidx, lo, hi)]
    for n in s.inputs:
      drv.setdefault(n, []).append(('input port', (), 0, 1 << 30))
    for pid, (who, ws) in s.acc_w.items():
      for name, ui, lo, hi in ws:
        drv.setdefault(name, []).append((who + f"#{pid % 9973}", ui, lo, hi))
    def compat(a, b):
      return all(x is None or y is None or x == y for x, y in zip(a, b))
    for name, ds in drv.items():
      if name in s.loopvars: continue
      for i in range(len(ds)):
        for j in range(i + 1, len(ds)):
          a, b = ds[i], ds[j]
          if a[0] != b[0] and compat(a[1], b[1]) and max(a[2], b[2]) < min(a[3], b[3]):
            raise SVSyntaxError(f"variable {name} has two drivers: {a[0].split('#')[0]} and {b[0].split('#')[0]} (bits [{max(a[2], b[2])}:{min(a[3], b[3])}))")
    # NOTE: zero drivers is deliberately NOT flagged here: a PyMTL design may leave a signal undriven (it then
    # reads 0 in both semantics); a driver the translator lost shows up as a value difference instead.
  def fresh_vals(s, tag=''):
    return {n: mk_val(tag+n, s.env.types[n], s.env.udims[n], lambda nm, w: z3.BitVec(nm, w)) for n in s.env.types}
  def zero_vals(s):
    return {n: mk_val(n, s.env.types[n], s.env.udims[n], lambda nm, w: z3.BitVecVal(0, w)) for n in s.env.types}
