#!/bin/bash
# Build the overlay venv used by all checks (offline, idempotent, safe under concurrency).
set -e
cd "$(dirname "$0")"
V=/verif/.venv
[ -n "$VERIF_VENV" ] && V="$VERIF_VENV"
exec 9>"/tmp/.verif_venv.lock"
flock 9
if [ ! -x "$V/bin/python" ] || ! "$V/bin/python" -c "import z3, pymtl3" 2>/dev/null; then
  rm -rf "$V"
  /venv/bin/python -m venv "$V"
  SP=$("$V/bin/python" -c "import sysconfig;print(sysconfig.get_paths()['purelib'])")
  echo "import site; site.addsitedir('/venv/lib/python3.12/site-packages')" > "$SP/_verif_overlay.pth"
  PIP_NO_INDEX=1 "$V/bin/pip" install -q --no-index --find-links /opt/veriftools/wheels z3-solver >/dev/null
  PIP_NO_INDEX=1 "$V/bin/pip" install -q --no-index --find-links /opt/veriftools/wheels cvc5 >/dev/null 2>&1 || true
fi
"$V/bin/python" -c "import z3, pymtl3; print('venv ok: z3', z3.get_version_string(), 'pymtl3', pymtl3.__file__)"
