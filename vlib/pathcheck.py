"""Path-wise comparison of a real function against a total, case-split specification.

spec = list of cases (cond, kind, payload):
   cond    z3 Bool over the symbolic inputs
   kind    'val'  payload = function(result) -> z3 Bool "result is the specified one"
           'exc'  payload = exception class name
For every feasible path of the harness:
   returned value  => pc implies OR_{val cases} (cond and payload(result))
   raised E        => pc implies OR_{exc cases with name E} cond
Each implication is one solver query (an obligation).  A `sat` answer is a candidate
counterexample; the caller turns the model into a replay script.
"""
import z3

from symx import core
from symx.core import Explorer, Unsupported, PathPruned
from vlib import prove


class Result:
  def __init__(s, name):
    s.r = dict(name=name, obligations=0, discharged=0, states=0, transitions=0, violations=[],
               inconclusive=[], samples=[], twins_expected=0, twins_sat=0, distinct=[], replays=0, programs=0)

  def __getitem__(s, k): return s.r[k]
  def __setitem__(s, k, v): s.r[k] = v


def check_paths(res, fn, spec, base_pc=(), replay=None, key=None, twin=None, max_paths=20000,
                max_decisions=3000, timeout_ms=60000, sample=None, explorer=None):
  """explore fn() and judge every path against spec(result-independent case list).
  replay(model, what) -> replay script body; key -> known-finding key function(model, what)
  twin(result) -> z3 Bool that must be SATISFIABLE on some value-returning path (reachability witness)."""
  r = res.r
  ex = explorer or Explorer(base_pc=base_pc, max_paths=max_paths, max_decisions=max_decisions)
  twin_done = False
  npaths = 0
  for pc, out, exc in ex.paths(fn):
    if isinstance(exc, PathPruned): continue
    npaths += 1
    r['states'] += 1
    r['transitions'] += len(pc)
    full = list(base_pc) + pc
    if exc is None:
      alts = [z3.And(c, p(out)) for c, k, p in spec if k == 'val']
      what = "returned a value"
    else:
      en = type(exc).__name__
      alts = [c for c, k, p in spec if k == 'exc' and p == en]
      what = f"raised {en}: {str(exc)[:120]}"
    goal = z3.Or(*alts) if alts else z3.BoolVal(False)
    r['obligations'] += 1
    v, m = prove(full, goal, timeout_ms)
    if v == 'unsat':
      r['discharged'] += 1
      r['distinct'].append(f"{r['name']}#{npaths}")
    elif v == 'sat':
      if replay is not None:
        r['violations'].append(dict(key=key(m, what) if key else r['name'], what=f"{r['name']}: {what} against the specification",
                                    replay=replay(m, what)))
      else:
        r['inconclusive'].append(f"counterexample without replay: {what}")
    else:
      r['inconclusive'].append(f"solver unknown on path {npaths}: {m}")
    if twin is not None and exc is None and not twin_done:
      r['twins_expected'] += 1
      tv, _ = prove(full, z3.Not(twin(out)), timeout_ms)   # "twin(out) satisfiable?"
      if tv == 'sat': r['twins_sat'] += 1
      twin_done = True
    if sample is not None and len(r['samples']) < 1:
      r['samples'].append(sample(pc, out, exc))
  if twin is not None and not twin_done:
    pass   # no value-returning path at all: nothing to witness
  return npaths


def prove_from_defaults(full_pc, goal, stale_vars, timeout_ms=60000):
  """RTL steps start from an arbitrary state, including arbitrary *stale wire values* (a correct design
  recomputes every wire, so they cannot matter).  If the goal fails, look for a counterexample whose
  stale wires hold their power-on default 0 -- a state a concrete replay can plant by setting registers
  only.  Returns (verdict, model, stale_only): stale_only=True means the goal fails only for non-default
  stale wire values (some wire is not recomputed; not reachable from reset defaults)."""
  v, m = prove(full_pc, goal, timeout_ms)
  if v != 'sat': return v, m, False
  v2, m2 = prove(list(full_pc) + [x == 0 for x in stale_vars], goal, timeout_ms)
  if v2 == 'sat': return 'sat', m2, False
  if v2 == 'unsat': return 'sat', m, True
  return 'unknown', m2, False
