"""C10 instrumentation (no z3 here; used by the symbolic check and by the concrete replay):
static widths from the real RTLIR type checker, and a re-compiled copy of an update block in which every
typed Python expression node is wrapped as __w(<key>, expr) so that the runtime width can be observed."""
import ast
import copy
import types


def key(a): return (type(a).__name__, a.lineno, a.col_offset, a.end_lineno, a.end_col_offset)


def static_types(m):
  """run the real BehavioralRTLIRGenPass + TypeCheckPass on component m (raises what they raise);
  returns {blk: {node key: (static width, is_explicit, RTLIR node class)}}"""
  from pymtl3.passes.rtlir import BehavioralRTLIRGenPass, BehavioralRTLIRTypeCheckPass
  from pymtl3.passes.rtlir.behavioral import BehavioralRTLIR as bir
  from pymtl3.passes.rtlir.rtype import RTLIRDataType as rdt
  m.apply(BehavioralRTLIRGenPass(m)); m.apply(BehavioralRTLIRTypeCheckPass(m))
  out = {}
  for blk, ir in m.get_metadata(BehavioralRTLIRGenPass.rtlir_upblks).items():
    tbl = {}

    def walk(n):
      a = getattr(n, 'ast', None); T = getattr(n, 'Type', None)
      if a is not None and hasattr(a, 'lineno') and isinstance(a, ast.expr) and T is not None:
        try:
          dt = T.get_dtype()
          if isinstance(dt, rdt.Vector): tbl[key(a)] = (dt.get_length(), getattr(n, '_is_explicit', None), type(n).__name__)
        except Exception:
          pass
      for f, v in vars(n).items():
        if f in ('ast', 'Type'): continue
        if isinstance(v, bir.BaseBehavioralRTLIR): walk(v)
        elif isinstance(v, list):
          for x in v:
            if isinstance(x, bir.BaseBehavioralRTLIR): walk(x)
    walk(ir); out[blk] = tbl
  return out


class _Instr(ast.NodeTransformer):
  def __init__(s, keys): s.keys = keys

  def visit(s, node):
    k = key(node) if isinstance(node, ast.expr) and hasattr(node, 'lineno') else None
    is_store = isinstance(getattr(node, 'ctx', None), (ast.Store, ast.Del))
    node = s.generic_visit(node)
    if k in s.keys and not is_store:
      return ast.copy_location(ast.Call(func=ast.Name(id='__w', ctx=ast.Load()), args=[ast.Constant(value=k), node], keywords=[]), node)
    return node

  def visit_AugAssign(s, node):   # do not wrap the assignment target
    node.value = s.visit(node.value); return node

  def visit_Assign(s, node):
    node.value = s.visit(node.value); return node

  def visit_For(s, node):
    node.iter = s.visit(node.iter); node.body = [s.visit(x) for x in node.body]; return node


def instrument(m, blk, keys, rec):
  """a function equivalent to blk (same globals, same closure cells) that calls rec(key, value) at every typed node"""
  info = m.get_update_block_info(blk)    # (is_lambda, src, line, file, ast)
  tree = copy.deepcopy(info[-1])
  fdef = tree.body[0]
  if not isinstance(fdef, ast.FunctionDef): raise NotImplementedError("lambda / synthesised block")
  fdef.decorator_list = []
  fdef = _Instr(keys).visit(fdef)
  free = blk.__code__.co_freevars
  outer = ast.FunctionDef(name='__outer', args=ast.arguments(posonlyargs=[], args=[], vararg=None, kwonlyargs=[], kw_defaults=[], kwarg=None, defaults=[]),
                          body=[ast.Assign(targets=[ast.Name(id=v, ctx=ast.Store())], value=ast.Constant(value=None)) for v in free] +
                          [fdef, ast.Return(value=ast.Name(id=fdef.name, ctx=ast.Load()))], decorator_list=[])
  mod = ast.Module(body=[outer], type_ignores=[]); ast.fix_missing_locations(mod)
  code = compile(mod, f"<instr {blk.__name__}>", 'exec')
  ns = {}; exec(code, ns)
  inner = [c for c in ns['__outer'].__code__.co_consts if isinstance(c, types.CodeType) and c.co_name == fdef.name][0]
  cells = dict(zip(free, blk.__closure__ or ()))
  g = dict(blk.__globals__); g['__w'] = rec
  return types.FunctionType(inner, g, blk.__name__, None, tuple(cells[v] for v in inner.co_freevars))


def block_source(m, blk):
  try:
    return m.get_update_block_info(blk)[1]
  except Exception:
    return ''


def uses_width_changing_constructs(src):
  """explicit BitsN(...) / mk_bits casts or shifts (whose amount may have another width): excluded from the no-ValueError clause"""
  import re
  return bool(re.search(r"\bBits\d+\s*\(|\bb\d+\s*\(|mk_bits|<<|>>|trunc\(", src))


WIDTH_MISMATCH_MARKERS = ("must have matching bitwidth", "Bitwidth of LHS must be equal to RHS", "Cannot fit a Bits")
