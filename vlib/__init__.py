"""vlib -- conventions shared by all checks: work distribution, verdict bookkeeping,
replay of counterexamples on the pristine code, known findings, evidence files, exit codes.

Exit codes: 0 all decided and held; 1 replay-confirmed violation not listed in
known_findings.json; 2 inconclusive / harness error.
"""
import hashlib
import json
import multiprocessing as mp
import os
import subprocess
import sys
import tempfile
import time
import traceback

VERIF = os.path.dirname(os.path.dirname(os.path.abspath(__file__)))
REPO = os.environ.get('VERIF_REPO', '/repo')
PY = '/venv/bin/python'
KNOWN = os.path.join(VERIF, 'known_findings.json')

LEVEL_KEYS = {
  'model_checking': ('states', 'transitions', 'traces_validated_against_impl'),
  'translation_validation': ('programs', 'disagreements_checked'),
}


# ---------------------------------------------------------------------------
# worker pool with hard per-item timeouts (a stuck solver can not hang a check)
# ---------------------------------------------------------------------------
def _child(fn, item, conn):
  t0 = time.time()
  try:
    from symx import core
    core.STATS.reset()
    res = fn(item)
    if res is None: res = {}
    res.setdefault('stats', core.STATS.as_dict())
  except BaseException as e:   # noqa -- report everything, incl. Unsupported
    res = {'error': f"{type(e).__name__}: {e}", 'trace': traceback.format_exc()[-3000:]}
  res['wall_s'] = round(time.time() - t0, 3)
  try:
    from vlib import cover
    res['functions'] = cover.seen()
  except Exception:
    pass
  try:
    conn.send(res)
  except Exception as e:
    conn.send({'error': f"result not sendable: {e}"})
  conn.close()


def pmap(fn, items, nproc=None, item_timeout=600, label=lambda it: str(it)[:100]):
  """run fn(item) for every item, each in its own forked process; returns list of (item, result dict)"""
  nproc = nproc or int(os.environ.get('VERIF_NPROC', '16'))
  ctx = mp.get_context('fork')
  pending = list(enumerate(items))
  running = {}
  out = [None] * len(items)
  sys.stdout.flush()
  while pending or running:
    while pending and len(running) < nproc:
      i, it = pending.pop(0)
      a, b = ctx.Pipe(duplex=False)
      p = ctx.Process(target=_child, args=(fn, it, b))
      p.start(); b.close()
      running[i] = (p, a, time.time(), it)
      if os.environ.get('VERIF_PMAP_LOG'): print(f'[pmap] start pid={p.pid} {label(it)}', file=sys.stderr, flush=True)
    time.sleep(0.01)
    for i in list(running):
      p, a, t0, it = running[i]
      if a.poll():
        try: res = a.recv()
        except EOFError: res = {'error': 'worker died without a result'}
        p.join(); a.close()
        out[i] = (it, res); del running[i]
        if os.environ.get('VERIF_PMAP_LOG'): print(f'[pmap] done {time.time()-t0:.1f}s {label(it)}', file=sys.stderr, flush=True)
      elif not p.is_alive():
        p.join(); a.close()
        out[i] = (it, {'error': f'worker exited with code {p.exitcode} without a result'}); del running[i]
      elif time.time() - t0 > item_timeout:
        p.kill(); p.join(); a.close()
        out[i] = (it, {'error': f'timeout after {item_timeout}s', 'timeout': True}); del running[i]
  return out


# ---------------------------------------------------------------------------
# replay
# ---------------------------------------------------------------------------
REPLAY_HEADER = '''# Replay of a solver counterexample against the pristine pymtl3 (no proxies, no stubs).
# exit 1 + "REPRODUCED" = the violation shows on the real code; exit 0 = it does not.
import sys
sys.path.insert(0, %r)
def reproduced(msg):
  print("REPRODUCED:", msg); sys.exit(1)
def not_reproduced(msg=""):
  print("not reproduced", msg); sys.exit(0)
'''


def run_replay(prop, body):
  """write a replay script, run it on the pristine code; returns (path, reproduced: bool|None, output)"""
  d = os.path.join(VERIF, 'evidence', 'replays')
  os.makedirs(d, exist_ok=True)
  text = (REPLAY_HEADER % REPO) + body + "\nnot_reproduced()\n"
  dg = hashlib.sha1(body.encode()).hexdigest()[:10]
  path = os.path.join(d, f"{prop}-{dg}.py")
  with open(path, 'w') as f: f.write(text)
  env = dict(os.environ); env['PYTHONPATH'] = REPO; env.pop('PYMTL3_VERIF', None)
  try:
    with tempfile.TemporaryDirectory(prefix='verif_replay_') as td:
      py = PY
      if '_tvreplay' in body or 'import z3' in body or 'from checks.' in body:      # replays that need the svsem oracle run under the overlay venv (same pristine pymtl3)
        py = os.path.join(os.environ.get('VERIF_VENV', os.path.join(VERIF, '.venv')), 'bin', 'python')
        if not os.path.exists(py): py = sys.executable
      env['VERIF_SCRATCH'] = td
      r = subprocess.run([py, path], cwd=td, env=env, capture_output=True, text=True, timeout=600)
  except subprocess.TimeoutExpired:
    return path, None, 'replay timed out'
  outp = (r.stdout + r.stderr)[-2000:]
  if r.returncode == 1 and 'REPRODUCED:' in r.stdout: return path, True, outp
  if r.returncode == 0: return path, False, outp
  return path, None, outp


# ---------------------------------------------------------------------------
# Check: bookkeeping for one run of one property
# ---------------------------------------------------------------------------
class Check:
  def __init__(s, prop, tier, level='model_checking'):
    s.prop = prop
    s.tier = tier
    s.level = level
    s.seed = int(os.environ.get('VERIF_SEED', '0') or 0)
    s.t0 = time.time()
    s.obligations = 0          # solver queries asked as "negated property"
    s.discharged = 0           # ... answered unsat
    s.states = 0               # symbolic paths on which a property was asserted
    s.transitions = 0          # decisions taken on those paths
    s.replays = 0              # concrete runs against the pristine implementation
    s.programs = 0
    s.disagreements = 0
    s.violations = []          # replay-confirmed, not known
    s.known = []               # replay-confirmed, listed
    s.inconclusive = []
    s.samples = []
    s.items = []               # per-item summaries
    s.twins = {'expected_sat': 0, 'sat': 0}
    s.functions = set()
    s.stats = {}
    s.bounds = {}
    s.outside = []
    s.assumptions = []
    s.distinct = set()
    s.extra = {}
    s.more_for_key = {}
    s.speculative_rejected = 0
    try:
      s.kf = json.load(open(KNOWN))
    except Exception:
      s.kf = {'findings': [], 'fixed': []}

  # -- aggregation of a worker result -------------------------------------------
  def absorb(s, item, res):
    """merge the result dict of one work item (see checks for the keys they produce)"""
    name = res.get('name', str(item)[:80])
    if 'error' in res:
      s.inconclusive.append(f"{name}: {res['error']}")
      if res.get('trace'): sys.stderr.write(res['trace'] + "\n")
    s.obligations += res.get('obligations', 0)
    s.discharged += res.get('discharged', 0)
    s.states += res.get('states', 0)
    s.transitions += res.get('transitions', 0)
    s.replays += res.get('replays', 0)
    s.programs += res.get('programs', 0)
    s.twins['expected_sat'] += res.get('twins_expected', 0)
    s.twins['sat'] += res.get('twins_sat', 0)
    for k, v in res.get('stats', {}).items():
      if isinstance(v, (int, float)):
        if k.startswith('max_'): s.stats[k] = max(s.stats.get(k, 0), v)
        else: s.stats[k] = round(s.stats.get(k, 0) + v, 3)
    s.functions.update(res.get('functions', ()))
    for x in res.get('inconclusive', ()): s.inconclusive.append(f"{name}: {x}")
    for d in res.get('distinct', ()): s.distinct.add(d)
    for smp in res.get('samples', ())[:2]:
      if len(s.samples) < 12: s.samples.append(smp)
    for v in res.get('violations', ()):
      s.candidate(v['key'], v['what'], v['replay'], v.get('speculative', False))
    s.items.append({'item': name, 'wall_s': res.get('wall_s'), 'obligations': res.get('obligations', 0),
                    'discharged': res.get('discharged', 0), 'paths': res.get('states', 0),
                    **{k: res[k] for k in ('note', 'verdict') if k in res}})

  # -- counterexamples --------------------------------------------------------------
  def candidate(s, key, what, replay_body, speculative=False):
    """a solver model: replay on the pristine code, report only what reproduces"""
    what = ' '.join(str(what).split())
    if key in [k for k, _, _ in s.violations] or key in [k for k, _ in s.known]:
      s.more_for_key[key] = s.more_for_key.get(key, 0) + 1      # one replay per key is enough
      return True
    path, ok, outp = run_replay(s.prop, replay_body)
    s.replays += 1
    if ok is None:
      s.inconclusive.append(f"replay of {key} failed to run: {outp[-300:]}")
      return False
    if not ok and speculative:
      s.speculative_rejected += 1      # proposed under a nondeterministic stub; the real code is right for this input
      return False
    if not ok:
      s.inconclusive.append(f"counterexample for {key} does NOT reproduce on the real code "
                            f"(encoding or stub wrong): {what} [{path}]")
      return False
    s.disagreements += 1
    for f in s.kf.get('findings', []):
      if f['property'] == s.prop and f['key'] == key:
        if key not in [k for k, _ in s.known]:
          s.known.append((key, f['what']))
        return True
    s.violations.append((key, what, path))
    return True

  # -- finish -------------------------------------------------------------------------
  def finish(s, rule, explanation=''):
    for key, what in s.known:
      print(f"KNOWN-FINDING: property={s.prop} {key}: {what}")
    for key, what, path in s.violations:
      print(f"VIOLATION property={s.prop} replay={path}")
      print(f"  {key}: {what}")
    for x in s.inconclusive:
      print(f"INCONCLUSIVE: {x}")
    if s.twins['expected_sat'] != s.twins['sat']:
      s.inconclusive.append(f"reachability twins: {s.twins['sat']} of {s.twins['expected_sat']} came back sat (vacuous harness?)")
      print("INCONCLUSIVE:", s.inconclusive[-1])
    wall = round(time.time() - s.t0, 2)
    cov = {
      'evaluations': max(s.obligations, 1),
      'distinct_nontrivial': max(len(s.distinct), s.discharged),
      'rule': rule,
      'samples': s.samples or ['(no sample recorded)'],
      'obligations': s.obligations,
      'discharged': s.discharged,
      'states': max(s.states, 1),
      'transitions': max(s.transitions, 1),
      'traces_validated_against_impl': s.replays,
      'programs': max(s.programs, 1),
      'disagreements_checked': s.disagreements,
      'explanation': explanation,
      'exhaustive': False,
      'reachability_twins': s.twins,
      'bounds': s.bounds,
      'outside_the_claim': s.outside,
      'functions_executed_symbolically': sorted(s.functions),
      'solver': s.stats,
      'inconclusive': s.inconclusive,
      'known_findings_reported': [k for k, _ in s.known],
      'further_counterexamples_per_key': s.more_for_key,
      'stub_proposals_rejected_by_replay': s.speculative_rejected,
      'items': s.items if len(s.items) <= 400 else s.items[:400] + [{'truncated': len(s.items) - 400}],
      'trusted_base': ['z3 4.x/5.x', 'CPython evaluation of non-int operations', 'symx (self-tested)', 'oracles in /verif/specs'],
      'checker_cmd': f"./vcheck {s.prop} {s.tier}",
    }
    cov.update(s.extra)
    ev = {'property_id': s.prop, 'tier': s.tier, 'seed': s.seed, 'level': s.level, 'coverage': cov,
          'assumptions': s.assumptions, 'wall_s': wall, 'violations': len(s.violations)}
    os.makedirs(os.path.join(VERIF, 'evidence'), exist_ok=True)
    with open(os.path.join(VERIF, 'evidence', f'{s.prop}.json'), 'w') as f:
      json.dump(ev, f, indent=1, default=str)
    code = 1 if s.violations else (2 if s.inconclusive else 0)
    print(f"[{s.prop} {s.tier}] obligations={s.obligations} discharged={s.discharged} paths={s.states} "
          f"replays={s.replays} known={len(s.known)} violations={len(s.violations)} "
          f"inconclusive={len(s.inconclusive)} wall={wall}s -> exit {code}")
    sys.stdout.flush()
    sys.exit(code)


def known_keys(prop):
  """keys of the listed known findings of a property (read-only)"""
  try:
    return {f['key'] for f in json.load(open(KNOWN)).get('findings', []) if f['property'] == prop}
  except Exception:
    return set()


# ---------------------------------------------------------------------------
# a single property query
# ---------------------------------------------------------------------------
def prove(pc, prop, timeout_ms=60000):
  """is `prop` valid under path condition pc?  returns ('unsat', None) | ('sat', model) | ('unknown', reason)"""
  import z3
  from symx import core
  s = z3.Solver()
  s.set('timeout', min(timeout_ms, 10000))
  s.add(*pc)
  s.add(z3.Not(prop))
  t0 = time.time()
  r = s.check()
  if r == z3.unknown:      # erratic SMT core on some term orders: bit-blast + SAT, then a fresh solver with the full budget
    r, s2 = core.robust_check(list(s.assertions()), timeout_ms, want_model=True)
    if s2 is not None: s = s2
  core.STATS.solver_s += time.time() - t0
  core.STATS.solver_checks += 1
  if r == z3.unsat:
    if os.environ.get('VERIF_CROSS') == '1':
      x = cross_check(s)
      if x == 'sat': return 'unknown', 'cvc5 disagrees with z3: sat'
      if x == 'unsat': core.STATS.cross_ok += 1
      else: core.STATS.cross_unknown += 1
    return 'unsat', None
  if r == z3.sat: return 'sat', s.model()
  return 'unknown', s.reason_unknown()


def cross_check(solver, timeout_s=60):
  """re-decide a z3 query with cvc5 (thorough tier); returns 'unsat'/'sat'/'unknown' or None if cvc5 is unavailable"""
  try:
    import cvc5  # noqa
  except Exception:
    return None
  txt = "(set-logic ALL)\n" + solver.to_smt2()
  with tempfile.NamedTemporaryFile('w', suffix='.smt2', delete=False) as f:
    f.write(txt); fn = f.name
  try:
    exe = os.path.join(os.path.dirname(sys.executable), 'cvc5')
    cmd = [exe] if os.path.exists(exe) else ['cvc5']
    r = subprocess.run(cmd + [f'--tlimit={timeout_s * 1000}', fn], capture_output=True, text=True, timeout=timeout_s + 10)
    o = r.stdout.strip().split('\n')[0] if r.stdout.strip() else 'unknown'
    if '(error' in r.stdout + r.stderr: return 'unknown'
    return o if o in ('sat', 'unsat') else 'unknown'
  except Exception:
    return 'unknown'
  finally:
    os.unlink(fn)
