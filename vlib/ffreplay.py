"""Concrete replay helper for C07 on the pristine pymtl3: plant a state, settle, compute the edge function F by
running each update_ff block ALONE on the pre-edge values (sentinel in every _next), then run the real
sim_tick() and compare every register."""
import copy


class _Sentinel:
  pass


def _cells(top):
  """{name: Bits leaf object} for every signal leaf (net members share objects: first name wins)"""
  from pymtl3.datatypes import Bits
  from pymtl3.datatypes.bitstructs import is_bitstruct_inst
  out = {}
  seen = set()

  def rec(name, v):
    if isinstance(v, Bits):
      out[name] = v
    elif isinstance(v, list):
      for i, x in enumerate(v): rec(f"{name}[{i}]", x)
    elif is_bitstruct_inst(v):
      for f in v.__bitstruct_fields__: rec(f"{name}.{f}", getattr(v, f))
  for sig, (host, key, is_list, val) in top._sim.signal_object_mapping.items():
    rec(repr(sig), val)
  return out


class _OrderedSet(set):
  """a set that iterates in a given order (still a set for every set operation)"""
  def __init__(s, items):
    items = list(items); super().__init__(items); s._order = items
  def __iter__(s): return iter([x for x in s._order if set.__contains__(s, x)])
  def copy(s): return _OrderedSet(list(s))


class force_ff_order:
  """the set of update_ff blocks has no defined iteration order (function objects hash by address); a
  counterexample that depends on it names the order, and the replay forces that legal order"""
  def __init__(s, order): s.order = order
  def __enter__(s):
    from pymtl3.dsl.Component import Component
    s.C = Component; s.orig = Component.get_all_update_ff
    order = s.order; orig = s.orig
    if order:
      def patched(self):
        r = orig(self)
        key = lambda f: repr(self.get_update_block_host_component(f)) + '.' + f.__name__
        pos = {k: i for i, k in enumerate(order)}
        return _OrderedSet(sorted(r, key=lambda f: pos.get(key(f), 1 << 30)))
      Component.get_all_update_ff = patched
  def __exit__(s, *a):
    s.C.get_all_update_ff = s.orig


def apply_group(top, group):
  from pymtl3.passes.PassGroups import DefaultPassGroup, SimpleSimPass
  from pymtl3.passes.mamba.PassGroups import UnrollSim, HeuTopoUnrollSim, Mamba2020
  if group in ('default', 'dynamic'): top.elaborate(); top.apply(DefaultPassGroup())
  elif group == 'simple': top.elaborate(); top.apply(SimpleSimPass())
  elif group == 'unroll': top.apply(UnrollSim(print_line_trace=False))
  elif group == 'heutopo': top.apply(HeuTopoUnrollSim(print_line_trace=False))
  elif group == 'mamba': top.apply(Mamba2020(print_line_trace=False))
  else: raise ValueError(group)


def _struct_ilshift(self, other):
  if other.__class__ is not self.__class__:
    other = self.__class__.from_bits(other.to_bits())
  def rec(a, b):
    if isinstance(a, list):
      for x, y in zip(a, b): rec(x, y)
    elif hasattr(type(a), '__bitstruct_fields__'):
      for f in a.__bitstruct_fields__: rec(getattr(a, f), getattr(b, f))
    else:
      a <<= b
  rec(self, other)
  return self


class _record_ilshift:
  """oracle independent of the double-buffer machinery: while active, `x <<= v` on a Bits only records (x, value)"""
  def __init__(s): s.log = []
  def __enter__(s):
    from pymtl3.datatypes.PythonBits import Bits
    s.B = Bits; s.orig = Bits.__ilshift__
    log = s.log
    def rec(self, v):
      n = self._nbits
      if hasattr(v, 'nbits'):
        if v.nbits != n: raise ValueError("width mismatch in <<=")
        val = int(v.to_bits()._uint)
      else:
        val = int(v)
        if not (-(1 << (n - 1)) <= val <= (1 << n) - 1): raise ValueError("value does not fit in <<=")
        val &= (1 << n) - 1
      log.append((self, val))
      return self
    Bits.__ilshift__ = rec
    # struct <<= value: walk the leaves ourselves instead of trusting the generated per-field code
    import gc
    s.structs = {}
    for c in [o for o in gc.get_objects() if isinstance(o, type) and hasattr(o, '__bitstruct_fields__')]:
      s.structs[c] = c.__ilshift__
      c.__ilshift__ = _struct_ilshift
    return s
  def __exit__(s, *a):
    s.B.__ilshift__ = s.orig
    for c, f in s.structs.items(): c.__ilshift__ = f


def edge_check(make_top, group, state, ff_order=None):
  """state: {cell name: int} for every cell.  Returns None or a message describing the violation."""
  top = make_top()
  with force_ff_order(ff_order):
    apply_group(top, group)
  cells = _cells(top)
  objs = {}
  for n, o in cells.items(): objs.setdefault(id(o), (n, o))
  for n, v in state.items():
    if n in cells:
      o = cells[n]; o._uint = v
      try:
        o._next; o._next = v
      except AttributeError: pass
  top.sim_eval_combinational()
  pre = {i: int(o._uint) for i, (n, o) in objs.items()}
  # reference: every update_ff block alone, on pre-edge values, <<= recorded instead of executed
  F = {}
  for g in sorted(top.get_all_update_ff(), key=lambda f: repr(top.get_update_block_host_component(f)) + '.' + f.__name__):
    with _record_ilshift() as rec:
      g()
    mine = {}
    for o, val in rec.log: mine[id(o)] = val          # the last assignment executed wins
    for i, (n, o) in objs.items():
      if int(o._uint) != pre[i]: return f"update_ff block {g.__name__} changed the visible value of {n} before the edge"
    for i, val in mine.items():
      if i not in objs: continue
      if i in F: return f"two update_ff blocks assign {objs[i][0]}"
      F[i] = val
  top.sim_tick()
  for i, (n, o) in objs.items():
    dbuf = i in F
    if dbuf and not (0 <= o._uint < (1 << o.nbits)):
      return f"after the edge {n} holds the invalid payload {o._uint} (not in [0, 2^{o.nbits}))"
    if dbuf and int(o._uint) != F[i]:
      return f"after the edge {n} = {int(o._uint):#x}, but the last value assigned with <<= on pre-edge values is {F[i]:#x} (group {group})"
  # registers nobody assigned keep their value: check the flagged ones
  for sig, (host, key, is_list, val) in top._sim.signal_object_mapping.items():
    if sig._dsl.needs_double_buffer:
      for n2, o in _cells_of(repr(sig), val).items():
        if id(o) not in F and int(o._uint) != pre[id(o)]:
          return f"register {n2} was not assigned this cycle but changed from {pre[id(o)]:#x} to {int(o._uint):#x}"
  return None


def _cells_of(name, v):
  from pymtl3.datatypes import Bits
  from pymtl3.datatypes.bitstructs import is_bitstruct_inst
  out = {}
  if isinstance(v, Bits): out[name] = v
  elif isinstance(v, list):
    for i, x in enumerate(v): out.update(_cells_of(f"{name}[{i}]", x))
  elif is_bitstruct_inst(v):
    for f in v.__bitstruct_fields__: out.update(_cells_of(f"{name}.{f}", getattr(v, f)))
  return out


def order_check(make_top, state, nexts, a_name, b_name):
  """run ff blocks a;b and b;a from the same planted state (incl. pending _next values); compare"""
  res = []
  for order in ((a_name, b_name), (b_name, a_name)):
    top = make_top()
    apply_group(top, 'default')
    cells = _cells(top)
    for n, v in state.items():
      if n in cells:
        cells[n]._uint = v
        cells[n]._next = nexts.get(n, v)
    blks = {repr(top.get_update_block_host_component(f)) + '.' + f.__name__: f for f in top.get_all_update_ff()}
    for nm in order: blks[nm]()
    res.append({n: (int(o._uint), int(getattr(o, '_next', -1))) for n, o in cells.items()})
  if res[0] != res[1]:
    d = [n for n in res[0] if res[0][n] != res[1][n]]
    return f"update_ff blocks {a_name} and {b_name} do not commute: {d[:4]} differ between the two orders"
  return None
