"""Concrete replays for schedule properties (C01/C02/C11) on the pristine pymtl3."""


def _cells(top):
  from vlib.ffreplay import _cells as c
  return c(top)


def _key(top, b):
  if b in top._dag.genblks: return 'net:' + b.__name__
  try: return repr(top.get_update_block_host_component(b)) + '.' + b.__name__
  except Exception: return 'blk:' + b.__name__


def _plant(cells, state):
  for n, v in state.items():
    if n in cells:
      o = cells[n]; o._uint = v
      try:
        o._next; o._next = v
      except AttributeError: pass


def order_dependence(make_top, state, order_a, order_b):
  """two orders of the comb/net blocks, both checked against the REAL all_constraints, run from the same planted state"""
  from pymtl3.passes.sim.GenDAGPass import GenDAGPass
  from pymtl3.passes.sim.SimpleSchedulePass import SimpleSchedulePass
  from pymtl3.passes.sim.PrepareSimPass import PrepareSimPass
  res = []
  for order in (order_a, order_b):
    top = make_top(); top.elaborate(); GenDAGPass()(top); SimpleSchedulePass()(top)
    blks = {_key(top, b): b for b in top._dag.final_upblks - top.get_all_update_ff()}
    if set(order) != set(blks): return None
    pos = {k: i for i, k in enumerate(order)}
    for a, b in top._dag.all_constraints:
      ka, kb = _key(top, a), _key(top, b)
      if ka in pos and kb in pos and not pos[ka] < pos[kb]: return None      # not a legal order for the real constraints
    top._sched.update_schedule = [blks[k] for k in order]
    PrepareSimPass(print_line_trace=False)(top)
    cells = _cells(top); _plant(cells, state)
    top.sim_eval_combinational()
    res.append({n: int(o._uint) for n, o in cells.items()})
  d = sorted(n for n in res[0] if res[0][n] != res[1].get(n))
  if d: return f"two orders that both satisfy every scheduling constraint give different values for {d[:5]}: {order_a} vs {order_b}"
  return None


def not_fixed_point(make_top, group, state, inputs=None):
  from vlib.ffreplay import apply_group
  top = make_top(); apply_group(top, group)
  cells = _cells(top); _plant(cells, state)
  top.sim_eval_combinational()
  before = {n: int(o._uint) for n, o in cells.items()}
  for b in sorted(top._dag.final_upblks - top.get_all_update_ff(), key=lambda f: _key(top, f)):
    b()
    after = {n: int(o._uint) for n, o in cells.items()}
    d = sorted(n for n in before if before[n] != after[n])
    if d: return f"after sim_eval_combinational() (group {group}) re-running block {_key(top, b)} changes {d[:5]}: the state is not a fixed point"
  return None


def groups_disagree(make_top, ga, gb, state, cycles, ff_orders=None):
  """cycles: list of {input cell: int}; compares every cell after eval and after tick.  ff_orders: {group: the iteration
  order of the update_ff set the symbolic run saw} -- that order is address-dependent, and a counterexample may depend on it"""
  from vlib.ffreplay import apply_group, force_ff_order
  runs = []
  for g in (ga, gb):
    top = make_top()
    with force_ff_order((ff_orders or {}).get(g)): apply_group(top, g)
    cells = _cells(top); _plant(cells, state)
    tr = []
    try:
      for t, cyc in enumerate(cycles):
        for n, v in cyc.items():
          if n in cells: cells[n]._uint = v
        if t % 2 == 0:
          top.sim_eval_combinational(); tr.append({n: int(o._uint) for n, o in cells.items()})
        top.sim_tick(); tr.append({n: int(o._uint) for n, o in cells.items()})
    except Exception as e:
      tr.append({'__exception__': f"{type(e).__name__}: {e}"})
    runs.append(tr)
  for i, (x, y) in enumerate(zip(*runs)):
    d = sorted(n for n in x if x[n] != y.get(n))
    if d: return f"pass groups {ga} and {gb} disagree at observation {i} on {d[:5]}: {[(n, x[n], y.get(n)) for n in d[:3]]}"
  return None


def twin_differs(make_top, make_twin, group, state, outs):
  """false loop vs its acyclic twin: same inputs (taken from `state`), compare the named outputs"""
  from vlib.ffreplay import apply_group
  vals = []
  for mk in (make_top, make_twin):
    top = mk(); apply_group(top, group)
    cells = _cells(top); _plant(cells, state)
    try:
      top.sim_eval_combinational()
    except Exception as e:
      return f"evaluation raised {type(e).__name__}: {e}" if mk is make_top else None
    vals.append({n: int(cells[n]._uint) for n in outs if n in cells})
  if vals[0] != vals[1]: return f"false loop returns {vals[0]}, the equivalent acyclic design gives {vals[1]} (group {group})"
  return None


def eval_outcome(make_top, group, state):
  """-> 'fixed point' | 'not a fixed point: ...' | exception class name"""
  from vlib.ffreplay import apply_group
  top = make_top(); apply_group(top, group)
  cells = _cells(top); _plant(cells, state)
  try:
    top.sim_eval_combinational()
  except Exception as e:
    return type(e).__name__
  before = {n: int(o._uint) for n, o in cells.items()}
  for b in sorted(top._dag.final_upblks - top.get_all_update_ff(), key=lambda f: _key(top, f)):
    b()
    after = {n: int(o._uint) for n, o in cells.items()}
    d = sorted(n for n in before if before[n] != after[n])
    if d: return f"not a fixed point: re-running {_key(top, b)} changes {d[:4]}"
  return 'fixed point'


def executed_order(top):
  """keys of the combinational / net blocks in the order one sim_eval_combinational() of the pristine simulator calls them
  (profile hook on the blocks' code objects: works for every pass group, generated tick functions included)"""
  import sys
  codes = {b.__code__: _key(top, b) for b in top._dag.final_upblks}
  order = []
  def prof(frame, event, arg):
    if event == 'call' and frame.f_code in codes: order.append(codes[frame.f_code])
  sys.setprofile(prof)
  try: top.sim_eval_combinational()
  finally: sys.setprofile(None)
  return order


def explicit_order_violated(make_top, group, first, second):
  from vlib.ffreplay import apply_group
  top = make_top(); apply_group(top, group)
  order = executed_order(top)
  if first in order and second in order and order.index(first) > order.index(second):
    return f"pass group {group} runs {second} before {first} although an explicit constraint demands {first} first (executed order {order})"
  return None
