"""record which functions of /repo were entered while a harness ran (sys.monitoring, first entry only)"""
import os
import sys

REPO = os.environ.get('VERIF_REPO', '/repo')
_seen = set()
_on = False
_TOOL = 3


def _cb(code, off):
  fn = code.co_filename
  if fn.startswith(REPO):
    _seen.add(f"{fn[len(REPO) + 1:]}:{code.co_qualname}")
  elif 'upblk' in code.co_name or fn.startswith('<') or 'tick' in code.co_name:
    _seen.add(f"<generated>:{code.co_name}")
  return sys.monitoring.DISABLE


def start():
  global _on
  if _on: return
  try:
    sys.monitoring.use_tool_id(_TOOL, 'verif-cover')
    sys.monitoring.register_callback(_TOOL, sys.monitoring.events.PY_START, _cb)
    sys.monitoring.set_events(_TOOL, sys.monitoring.events.PY_START)
    _on = True
  except Exception:
    pass


def seen():
  return sorted(_seen)
