"""Concrete replay helper for RTL counterexamples: runs the pristine pymtl3 with the stock
DefaultPassGroup, plants a pre-state (cell payloads, as found by the solver), applies inputs
cycle by cycle and returns what the named signals carry.  Used only by replay scripts."""


def _leafset(obj, v):
  obj._uint = v
  try:
    obj._next
    obj._next = v
  except AttributeError:
    pass


def run_trace(make_top, pre_state, cycles, observe, passes=None):
  """make_top(): returns an un-elaborated component
  pre_state: {cell name ('s.a.b[0]'): int}; cycles: list of {input name: int}; observe: names
  returns list (per cycle) of {'comb': {name: int}, 'tick': {name: int}}"""
  from pymtl3 import DefaultPassGroup
  top = make_top()
  top.elaborate()
  if passes is None: top.apply(DefaultPassGroup())
  else: passes(top)
  get = lambda n: eval(n, {'s': top})
  for n, v in pre_state.items(): _leafset(get(n), v)
  out = []
  def obs():
    r = {}
    for n in observe:
      x = get(n)
      r[n] = int(x.to_bits()) if hasattr(x, 'to_bits') else int(x)
    return r
  for cyc in cycles:
    for n, v in cyc.items():
      x = get(n); x @= v
    top.sim_eval_combinational()
    c = obs()
    top.sim_tick()
    out.append({'comb': c, 'tick': obs()})
  return out
