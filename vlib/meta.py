"""Canonical, identity-free form of the queryable design metadata of an elaborated pymtl3 top component (C15).
Plain pymtl3 only (replays import this file)."""


def canon_meta(top):
  from pymtl3.dsl import Const
  from pymtl3.dsl.Connectable import Signal

  def nm(x):
    if isinstance(x, Const): return f"CONST:{int(x._dsl.const)}"
    try: return repr(x)
    except Exception: return f"<unprintable {type(x).__name__}>"

  def blk(b):
    try: host = repr(top.get_update_block_host_component(b))
    except Exception: host = '<no host>'
    return f"{host}.{getattr(b, '__name__', b)}"

  def ent(x):          # element of a constraint pair: a block, a signal, or a method
    if callable(x) and not hasattr(x, '_dsl'):
      h = getattr(x, '__self__', None)
      return blk(x) if h is None else f"{nm(h)}.{x.__name__}()"
    return nm(x)
  d = {}
  d['components'] = sorted(nm(c) for c in top.get_all_components())
  d['signals'] = sorted(nm(x) for x in top.get_all_object_filter(lambda x: isinstance(x, Signal)))
  d['named_objects'] = sorted(nm(x) for x in top.get_all_object_filter(lambda x: True))
  d['value_nets'] = sorted((nm(w), sorted(nm(x) for x in sigs)) for w, sigs in top.get_all_value_nets())
  d['method_nets'] = sorted((nm(w), sorted(nm(x) for x in sigs)) for w, sigs in top.get_all_method_nets())
  d['adjacency'] = sorted((nm(k), sorted(nm(x) for x in v)) for k, v in top.get_signal_adjacency_dict().items() if v)
  d['update_blocks'] = sorted(blk(b) for b in top.get_all_update_blocks())
  d['update_ff'] = sorted(blk(b) for b in top.get_all_update_ff())
  d['update_once'] = sorted(blk(b) for b in top.get_all_update_once())
  rd, wr, ca = top.get_all_upblk_metadata()
  d['reads'] = sorted((blk(b), sorted(nm(o) for o in v)) for b, v in rd.items() if v)
  d['writes'] = sorted((blk(b), sorted(nm(o) for o in v)) for b, v in wr.items() if v)
  d['calls'] = sorted((blk(b), sorted(ent(o) for o in v)) for b, v in ca.items() if v)
  uu, rdu, wru, mm = top.get_all_explicit_constraints()
  d['U_U'] = sorted((ent(a), ent(b)) for a, b in uu)
  flat = lambda dd: sorted((nm(k), sorted((str(sign), ent(b)) for sign, b in v)) for k, v in dd.items() if v)
  d['RD_U'] = flat(rdu); d['WR_U'] = flat(wru)
  d['M'] = sorted(tuple(str(ent(x)) for x in c) for c in mm)
  return d


def diff_meta(a, b, limit=3):
  """human-readable differences between two canonical metadata dicts ([] when equal)"""
  out = []
  for k in a:
    if a[k] != b.get(k):
      xa = [x for x in a[k] if x not in b.get(k, [])][:limit]; xb = [x for x in b.get(k, []) if x not in a[k]][:limit]
      out.append(f"{k}: only after replacement {xa}, only from scratch {xb}")
  return out


def stale_objects(top, limit=5):
  """objects recorded anywhere in the queryable metadata that are NOT the objects their own names evaluate to
  (i.e. they belong to something that is no longer part of the hierarchy)"""
  from pymtl3.dsl import Const
  from pymtl3.dsl.NamedObject import NamedObject
  bad = []
  seen = set()

  def chk(x, where):
    if isinstance(x, Const) or not isinstance(x, NamedObject) or id(x) in seen: return
    seen.add(id(x))
    base = x
    try:
      while getattr(base._dsl, 'slice', None) is not None: base = base._dsl.parent_obj      # a slice is checked through its signal
      y = eval(repr(base), {'s': top})
    except Exception as e:
      bad.append(f"{where}: {x!r} does not evaluate ({type(e).__name__})"); return
    if y is not base: bad.append(f"{where}: {x!r} is not the object its name evaluates to")

  def chk_blk(b, where):
    try: chk(top.get_update_block_host_component(b), where + ' host of ' + b.__name__)
    except Exception: bad.append(f"{where}: block {getattr(b, '__name__', b)} has no host component")
  for c in top.get_all_components(): chk(c, 'components')
  for x in top.get_all_object_filter(lambda x: True): chk(x, 'named objects')
  for w, sigs in list(top.get_all_value_nets()) + list(top.get_all_method_nets()):
    chk(w, 'net writer')
    for x in sigs: chk(x, 'net member')
  for k, v in top.get_signal_adjacency_dict().items():
    chk(k, 'adjacency key')
    for x in v: chk(x, 'adjacency')
  for b in list(top.get_all_update_blocks()) + list(top.get_all_update_ff()) + list(top.get_all_update_once()): chk_blk(b, 'update blocks')
  for kind, dd in zip(('reads', 'writes', 'calls'), top.get_all_upblk_metadata()):
    for b, v in dd.items():
      chk_blk(b, kind)
      for o in v: chk(getattr(o, '__self__', o), kind)
  uu, rdu, wru, mm = top.get_all_explicit_constraints()
  for a, b in uu:
    for x in (a, b):
      if not isinstance(x, NamedObject) and callable(x) and getattr(x, '__self__', None) is None: chk_blk(x, 'U_U constraints')
  for nmx, dd in (('RD_U', rdu), ('WR_U', wru)):
    for k, v in dd.items():
      if not v: continue          # a key whose constraint set is empty carries no constraint (it is not reported by canon_meta either)
      chk(k, nmx)
      for sign, b in v: chk_blk(b, nmx)
  return bad[:limit]
