ENGINES = [
  {'name': 'symx', 'path': '/verif/symx', 'serves_properties': ['C04', 'C05'],
   'kind_free_text': 'symbolic execution of the real Python code: proxy ints over z3 bit-vectors + DFS path explorer; every path outcome is a solver obligation'},
]
NOTES = 'See DESIGN.md. Exit codes of every check: 0 held / 1 replay-confirmed violation / 2 inconclusive (never on the unchanged tree by sizing).'
_NOTYET = 'check not built yet in this session (design exists in DESIGN.md section 7); listed here until its check lands'
NA = {p: _NOTYET for p in ['C01','C02','C03','C05','C06','C07','C08','C09','C10','C11','C12','C15','C17','C18','C19','C20']}
NA['C13'] = 'quantifies over PYTHONHASHSEED / allocation addresses and over str()/blake2b of arbitrary parameter objects: not a function of any input that can be made a solver variable (DESIGN.md section 8)'
NA['C14'] = 'object-identity facts about a heap built by __setattr__ hooks; no arithmetic, input or schedule to make symbolic; one concrete fact per hierarchy (DESIGN.md section 8)'
NA['C16'] = 'the dump compares and prints rendered strings (CPython formatter) every cycle: every symbolic value is realised at that boundary, the run degenerates into concrete enumeration (DESIGN.md section 8)'
CHECKS['C04'] = dict(
  text='bounded symbolic model checking of the real PythonBits.py: for each operator/operand form and each listed width n (up to 1023) every feasible path of the real method is compared by z3 with the SMT-LIB bit-vector operator at width n and with the documented acceptance interval; unsat = holds for all 2^(2n) operand pairs and all int operands of n+3 bits at that width',
  ref='7 C04', technique='symbolic execution of the real Python (symx) + z3 bit-vector queries, per path',
  note='trusted: z3, symx proxy-int semantics (self-tested differentially), the listed builtin stand-ins; // and % only up to 16 bits; widths are a listed finite set; __hash__ and text rendering outside')
CHECKS['C05'] = dict(
  text='bounded symbolic model checking of the real Bits.__getitem__/__setitem__ and helpers: value, BOTH slice bounds, index and step are signed symbolic ints (negative, zero, equal, reversed and out-of-range bounds inside one query), stored values are Bits of several widths and signed ints; every path outcome is compared by z3 with Extract / the frame equation / Concat / ZeroExt / SignExt / BVRed* or the documented error; clog2 against 2^(k-1) < N <= 2^k for all N < 2^64 (2^1024 thorough)',
  ref='7 C05', technique='symbolic execution of the real Python (symx) + z3 bit-vector queries, per path; libm behind a contract-constrained nondeterministic stub',
  note='trusted: z3, symx, stand-ins; widths are a listed finite set (quick up to 64, thorough up to 255 and 1023 for selected shapes); class-form zext/sext/trunc to an unsuitable width outside')
for p in CHECKS: NA.pop(p, None)
