#!/usr/bin/env python3
"""tools/kf_add.py <ID> <class text> <key-substring> ... : run the quick check, and for every VIOLATION whose key contains one of the
substrings add a known-finding entry (after manual triage!).  Never used at check run time."""
import json, subprocess, sys, re
prop, cls, subs = sys.argv[1], sys.argv[2], sys.argv[3:]
out = subprocess.run(['./vcheck', prop, 'quick'], cwd='/verif', capture_output=True, text=True).stdout
kf = json.load(open('/verif/known_findings.json'))
have = {(f['property'], f['key']) for f in kf['findings']}
lines = out.split('\n')
n = 0
for i, l in enumerate(lines):
  if l.startswith('VIOLATION property=') and i + 1 < len(lines):
    d = lines[i + 1].strip()
    # "  key: what"  -- the key ends at the first ': ' that is followed by the item name
    m = re.match(r"(.*?): ([vy]:\S+.*)$", d)
    if not m: continue
    key, what = m.group(1), m.group(2)
    if any(s in key for s in subs) and (prop, key) not in have:
      kf['findings'].append({'property': prop, 'key': key, 'what': cls + ' -- ' + what[:300]}); n += 1
json.dump(kf, open('/verif/known_findings.json', 'w'), indent=1)
print('added', n)
