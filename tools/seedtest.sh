#!/bin/bash
# tools/seedtest.sh <seed_dir> <ID> [tier] : apply a seeded change to /repo, run the check, undo it straight afterwards
set -u
S="$(realpath "$1")"; ID="$2"; TIER="${3:-quick}"
cd /verif
git -C /repo diff --quiet || { echo "/repo has uncommitted changes"; exit 3; }
git -C /repo apply "$S/patch.diff" || { echo "patch does not apply"; exit 3; }
cp evidence/$ID.json /tmp/.ev_$ID.json 2>/dev/null
./vcheck "$ID" "$TIER" > /tmp/seedtest_$$.log 2>&1; rc=$?
git -C /repo checkout -- . 
cp /tmp/.ev_$ID.json evidence/$ID.json 2>/dev/null
grep -E "^VIOLATION|^KNOWN|^INCONCLUSIVE|^\[" /tmp/seedtest_$$.log | cut -c1-220 | head -12
rm -f /tmp/seedtest_$$.log
echo "seed=$(basename $S) check=$ID tier=$TIER exit=$rc"
exit $rc
