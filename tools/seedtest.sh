#!/bin/bash
# tools/seedtest.sh <seed_dir> <ID> [tier] : apply a seeded change, run the check, undo it straight afterwards.
# With SEED_REPO=<dir> (a scratch worktree of /repo outside /repo and /verif) the change is applied THERE and the check runs
# with VERIF_REPO=<dir>, so /repo itself is never touched and other work can go on; without it the change is applied to /repo.
set -u
S="$(realpath "$1")"; ID="$2"; TIER="${3:-quick}"
R="${SEED_REPO:-/repo}"
cd /verif
git -C "$R" diff --quiet || { echo "$R has uncommitted changes"; exit 3; }
git -C "$R" apply "$S/patch.diff" || { echo "patch does not apply"; exit 3; }
trap 'git -C "$R" checkout -- . ; pkill -P $$ 2>/dev/null' EXIT INT TERM
EV=$(mktemp /tmp/.ev_XXXXXX.json); cp evidence/$ID.json $EV 2>/dev/null
LOG=$(mktemp /tmp/seedtest_XXXXXX.log)
VERIF_REPO="$R" ./vcheck "$ID" "$TIER" > $LOG 2>&1; rc=$?
git -C "$R" checkout -- .
cp $EV evidence/$ID.json 2>/dev/null; rm -f $EV
grep -E "^VIOLATION|^KNOWN|^INCONCLUSIVE|^\[" $LOG | cut -c1-220 | head -12
rm -f $LOG
echo "seed=$(basename $S) check=$ID tier=$TIER exit=$rc"
exit $rc
