#!/usr/bin/env python3
"""run every seeded change against its own check (and related ones); record exit codes in seeded/RESULTS.json
usage: seed_matrix.py [seed-name-prefix ...]   (sequential: each run patches /repo and reverts it)"""
import json, os, subprocess, sys, re
ROOT = '/verif/seeded'
RELATED = {'C01': ['C02', 'C07'], 'C02': ['C01', 'C09', 'C08'], 'C03': ['C12', 'C10'], 'C04': ['C05'], 'C05': ['C04'], 'C06': [], 'C07': ['C01', 'C04'],
           'C08': ['C01', 'C02', 'C09'], 'C09': ['C02', 'C08'], 'C10': ['C03', 'C04'], 'C11': ['C01', 'C02'], 'C12': ['C03'], 'C15': [], 'C16': [], 'C17': [], 'C18': ['C20'], 'C19': [], 'C20': []}
res_file = os.path.join(ROOT, 'RESULTS.json')
res = json.load(open(res_file)) if os.path.exists(res_file) else {}
sel = sys.argv[1:]
for d in sorted(os.listdir(ROOT)):
  p = os.path.join(ROOT, d)
  if not os.path.isdir(p) or not os.path.exists(os.path.join(p, 'patch.diff')): continue
  if sel and not any(d.startswith(x) for x in sel): continue
  prop = d[:3]
  for chk in [prop] + RELATED.get(prop, []):
    if res.get(d, {}).get(chk) in (0, 1): continue
    r = subprocess.run(['/verif/tools/seedtest.sh', p, chk, 'quick'], capture_output=True, text=True)
    m = re.search(r"exit=(\d+)", r.stdout)
    code = int(m.group(1)) if m else -1
    res.setdefault(d, {})[chk] = code
    json.dump(res, open(res_file, 'w'), indent=1, sort_keys=True)
    print(d, chk, code, flush=True)
