#!/usr/bin/env python3
"""write seeded/<name>/meta.json from notes.md, confirm.json (tools/confirm_seed.py) and RESULTS.json (tools/seed_matrix.py)"""
import json, os, re
ROOT = '/verif/seeded'
res = json.load(open(os.path.join(ROOT, 'RESULTS.json'))) if os.path.exists(os.path.join(ROOT, 'RESULTS.json')) else {}
NOTES = json.load(open(os.path.join(ROOT, 'NOTES.json'))) if os.path.exists(os.path.join(ROOT, 'NOTES.json')) else {}
for d in sorted(os.listdir(ROOT)):
  p = os.path.join(ROOT, d)
  if not os.path.isdir(p) or not os.path.exists(os.path.join(p, 'patch.diff')): continue
  notes = open(os.path.join(p, 'notes.md')).read() if os.path.exists(os.path.join(p, 'notes.md')) else ''
  conf = json.load(open(os.path.join(p, 'confirm.json'))) if os.path.exists(os.path.join(p, 'confirm.json')) else None
  files = sorted(set(re.findall(r"^\+\+\+ b/(\S+)", open(os.path.join(p, 'patch.diff')).read(), re.M)))
  r = res.get(d, {})
  meta = {
    'property': d[:3],
    'round': {'b': 2, 'c': 3, 'd': 4}.get(d[3], 1),
    'files_changed': files,
    'what_it_breaks_and_what_it_needs_to_manifest': ' '.join(notes.split())[:1500],
    'written_by': 'fresh sub-agent given only the property text and a scratch worktree',
    'confirmed_by_me': None if conf is None else {
      'how': 'tools/confirm_seed.py: scratch worktree of /repo HEAD; demo.py on the clean tree and with the patch; import check; full test suite (-n 10) with lost tests re-run serially',
      'demo_exit_clean': conf.get('demo_clean_rc'), 'demo_exit_patched': conf.get('demo_patched_rc'), 'imports': conf.get('import_ok'),
      'suite_passed': conf.get('suite_passed'), 'baseline_tests_lost': conf.get('lost'), 'confirmed': conf.get('confirmed')},
    'checks_run': {k: {0: 'exit 0 (missed)', 1: 'exit 1 (VIOLATION reported)', 2: 'exit 2 (inconclusive)', 3: 'patch did not apply'}.get(v, str(v)) for k, v in sorted(r.items())},
    'detected_by': sorted(k for k, v in r.items() if v == 1),
    'note': NOTES.get(d),
  }
  json.dump(meta, open(os.path.join(p, 'meta.json'), 'w'), indent=1)
print('meta written')
