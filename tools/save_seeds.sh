#!/bin/bash
# tools/save_seeds.sh <ID>b : copy the three mutations a sub-agent wrote to /tmp/wt/out_<ID>b into seeded/<ID>b-m{1,2,3} and remove its worktree
set -u
ID="$1"
for m in 1 2 3; do
  src=/tmp/wt/out_$ID/m$m; dst=/verif/seeded/$ID-m$m
  [ -f $src/patch.diff ] || { echo "missing $src/patch.diff"; continue; }
  mkdir -p $dst && cp $src/patch.diff $src/demo.py $src/notes.md $dst/ 2>/dev/null
done
git -C /repo worktree remove --force /tmp/wt/$ID 2>/dev/null; rm -rf /tmp/wt/out_$ID
ls -d /verif/seeded/$ID-m*
