#!/usr/bin/env python3
"""confirm a seeded change in a scratch worktree of /repo's HEAD:
   demo passes without / fails with the patch; the tree imports; every baseline-passing test still passes.
usage: confirm_seed.py <seed_dir> [--no-suite]      (writes <seed_dir>/confirm.json)"""
import json, os, subprocess, sys, tempfile, shutil, xml.etree.ElementTree as ET
seed = os.path.abspath(sys.argv[1]); suite = '--no-suite' not in sys.argv
PY = '/venv/bin/python'
wt = tempfile.mkdtemp(prefix='seedwt_', dir='/tmp')
os.rmdir(wt)
def sh(cmd, **kw): return subprocess.run(cmd, shell=True, capture_output=True, text=True, **kw)
out = {'seed': seed}
try:
  r = sh(f"git -C /repo worktree add -q --detach {wt} HEAD"); assert r.returncode == 0, r.stderr
  env = dict(os.environ, PYTHONPATH=wt, PYTHONDONTWRITEBYTECODE='1')
  demo = os.path.join(seed, 'demo.py')
  r0 = sh(f"{PY} {demo}", cwd=wt, env=env, timeout=900)
  out['demo_clean_rc'] = r0.returncode
  r = sh(f"git apply {seed}/patch.diff", cwd=wt)
  out['apply_rc'] = r.returncode; out['apply_err'] = r.stderr[-500:]
  if r.returncode == 0:
    r1 = sh(f"{PY} {demo}", cwd=wt, env=env, timeout=900)
    out['demo_patched_rc'] = r1.returncode; out['demo_patched_tail'] = (r1.stdout + r1.stderr)[-600:]
    ri = sh(f"{PY} -c 'import pymtl3, pymtl3.stdlib, pymtl3.passes; print(pymtl3.__file__)'", cwd=wt, env=env)
    out['import_ok'] = ri.returncode == 0 and wt in ri.stdout
    if suite:
      xml = os.path.join(wt, '_r.xml')
      sh(f"{PY} -m pytest -q -p no:cacheprovider --timeout=900 --continue-on-collection-errors -n 10 --junitxml={xml}", cwd=wt, env=env, timeout=3000)
      base = set(json.load(open('/root/.vp/BASELINE.json'))['stable_pass'])
      def passed(x):
        ok = set()
        for tc in ET.parse(x).getroot().iter('testcase'):
          if not any(c.tag in ('failure', 'error', 'skipped') for c in tc): ok.add(f"{tc.get('classname')}::{tc.get('name')}")
        return ok
      ok = passed(xml)
      lost = sorted(base - ok)
      out['suite_passed'] = len(ok); out['lost_first_run'] = lost
      if lost:   # xdist-only flakes (shared graphviz file): rerun the lost ones serially
        ids = []
        for t in lost:
          cls, name = t.split('::'); parts = cls.split('.')
          # module path = longest prefix that is a file
          for k in range(len(parts), 0, -1):
            f = os.path.join(wt, *parts[:k]) + '.py'
            if os.path.exists(f):
              ids.append('/'.join(parts[:k]) + '.py::' + '::'.join(parts[k:] + [name])); break
        xml2 = os.path.join(wt, '_r2.xml')
        sh(f"{PY} -m pytest -q -p no:cacheprovider --timeout=900 --junitxml={xml2} " + ' '.join(f"'{i}'" for i in ids), cwd=wt, env=env, timeout=3000)
        ok2 = passed(xml2)
        lost = sorted(set(lost) - ok2)
      out['lost'] = lost
  out['confirmed'] = (out.get('demo_clean_rc') == 0 and out.get('apply_rc') == 0 and out.get('demo_patched_rc', 0) != 0
                      and out.get('import_ok') and (not suite or out.get('lost') == []))
finally:
  sh(f"git -C /repo worktree remove --force {wt}"); shutil.rmtree(wt, ignore_errors=True)
json.dump(out, open(os.path.join(seed, 'confirm.json'), 'w'), indent=1)
print(json.dumps({k: out[k] for k in out if k not in ('demo_patched_tail',)}, indent=None)[:1500])
