#!/usr/bin/env python3
"""print the seeded-change matrix as a markdown table (from seeded/*/notes.md and seeded/RESULTS.json)"""
import json, os, re
ROOT = '/verif/seeded'
res = json.load(open(os.path.join(ROOT, 'RESULTS.json')))
rows = []
NOTES = json.load(open(os.path.join(ROOT, 'NOTES.json'))) if os.path.exists(os.path.join(ROOT, 'NOTES.json')) else {}
for d in sorted(os.listdir(ROOT)):
  p = os.path.join(ROOT, d)
  if not os.path.exists(os.path.join(p, 'patch.diff')): continue
  first = ''
  if os.path.exists(os.path.join(p, 'notes.md')):
    for l in open(os.path.join(p, 'notes.md')):
      if l.strip(): first = l.strip().lstrip('# ').strip(); break
  first = re.sub(r"^C\d\db?\s*/\s*(m|mutation )\s*\d\s*(--|-|—|:)?\s*", '', first)
  first = re.sub(r"^(m\d|M\d)\s*(--|-|—|:)\s*", '', first)
  r = res.get(d, {})
  own = d[:3]
  caught = [k for k, v in sorted(r.items()) if v == 1]
  other = [k for k in caught if k != own]
  if own in caught: c = own + (' (+ ' + ', '.join(other) + ')' if other else '')
  elif other: c = '**not by ' + own + '**; by ' + ', '.join(other)
  else: c = '**missed**'
  if d in NOTES: c += ' — ' + NOTES[d].split(':')[0]
  odd = {k: v for k, v in r.items() if v not in (0, 1)}
  if odd: c += f" [exit {odd}]"
  rows.append(f"| {d} | {first[:110]} | {c} |")
print("| seed | what it breaks | caught by |\n|---|---|---|")
print("\n".join(rows))
n = len(rows); own_c = sum(1 for d in res if res[d].get(d[:3]) == 1); any_c = sum(1 for d in res if 1 in res[d].values())
print(f"\n{n} seeds; caught by the property's own check: {own_c}; by any registered check: {any_c}")
