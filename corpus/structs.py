"""Deterministic generator of bitstruct shapes for C06 (descriptions as in specs/struct_spec.py)."""
import itertools
import random

from specs.struct_spec import nbits


def B(w): return ['bits', w]
def L(dims, d):
  for n in reversed(dims): d = ['list', n, d]
  return d
def S(name, *fields): return ['struct', name, [[f, d] for f, d in fields]]


def shapes(tier, seed=0):
  out = []
  leafs = [1, 2, 5, 8, 32]
  # flat, all ordered pairs of small leaves + triples
  for a, b in itertools.product(leafs[:4], leafs[:4]):
    out.append(S('F2', ('a', B(a)), ('b', B(b))))
  for a, b, c in [(1, 1, 1), (2, 5, 8), (8, 5, 2), (32, 1, 32), (1, 32, 1)]:
    out.append(S('F3', ('x', B(a)), ('y', B(b)), ('z', B(c))))
  out.append(S('Self', ('s', B(4)), ('self', B(3))))
  out.append(S('One', ('only', B(8))))
  out.append(S('Wide', ('hi', B(512)), ('lo', B(511))))
  out.append(S('WideL', ('v', L([4], B(255))), ('t', B(3))))
  # same class name, permuted field order (distinct types must not be confused)
  out.append(['pair', S('Perm!', ('len_', B(8)), ('opaque', B(8)), ('addr', B(8))),
                      S('Perm!', ('addr', B(8)), ('len_', B(8)), ('opaque', B(8)))])
  out.append(['pair', S('Perm2!', ('a', B(3)), ('b', B(5))), S('Perm2!', ('b', B(5)), ('a', B(3)))])
  # lists of Bits
  dimss = [[1], [2], [3], [2, 2], [1, 3], [3, 1], [2, 3], [3, 2], [2, 2, 2]]
  for dims in dimss:
    out.append(S('LB', ('h', B(3)), ('m', L(dims, B(4))), ('t', B(2))))
    out.append(S('LO', ('m', L(dims, B(5)))))
  # nested structs and lists of structs
  inners = [S('In', ('a', B(2)), ('b', B(5))), S('InL', ('x', L([3], B(2)))), S('InLL', ('x', L([2, 2], B(3))), ('y', B(1))),
            S('InS', ('s', B(4)), ('self', B(3))), S('In1', ('only', B(1)))]
  for I in inners:
    for dims in ([], [1], [2], [2, 2], [1, 3], [2, 3]):
      m = L(dims, I) if dims else I
      out.append(S('Nest', ('h', B(3)), ('m', m), ('t', B(2))))
      J = S('Mid', ('p', m), ('q', B(5)))
      out.append(S('Deep', ('u', L([2], J)), ('v', J), ('w', B(1))))
  out = [d for d in out if d[0] == 'pair' or nbits(d) < 1024]
  if tier == 'quick':
    rng = random.Random(seed)
    must = [d for d in out if d[0] == 'pair' or d[1] in ('Wide', 'Self', 'WideL')]
    lb = [d for d in out if d[0] != 'pair' and d[1] in ('LB',)]
    rest = [d for d in out if d not in must and d not in lb]
    rng.shuffle(rest)
    out = must + lb + rest[:28]
  return out
