"""Designs for C07 (flip-flop atomicity).  Plain pymtl3 components; no z3 (replays import this file)."""
from pymtl3 import *
from pymtl3.stdlib.basic_rtl import RegEnRst, RegisterFile, Reg, RegEn, RegRst


class Swap(Component):
  """two registers exchanging values in two different blocks"""
  def construct(s):
    s.ld = InPort(); s.in_a = InPort(8); s.in_b = InPort(8)
    s.a = Wire(8); s.b = Wire(8)
    s.oa = OutPort(8); s.ob = OutPort(8)
    s.oa //= s.a; s.ob //= s.b

    @update_ff
    def ff_a():
      if s.ld: s.a <<= s.in_a
      else: s.a <<= s.b

    @update_ff
    def ff_b():
      if s.ld: s.b <<= s.in_b
      else: s.b <<= s.a


class Stage(Component):
  def construct(s, n=8):
    s.in_ = InPort(n); s.out = OutPort(n)

    @update_ff
    def up_stage():
      s.out <<= s.in_


class ShiftChain(Component):
  """registers in different components chained through nets"""
  def construct(s, k=3):
    s.in_ = InPort(8); s.out = OutPort(8)
    s.st = [Stage() for _ in range(k)]
    s.st[0].in_ //= s.in_
    for i in range(1, k): s.st[i].in_ //= s.st[i - 1].out
    s.out //= s.st[k - 1].out


class CondMulti(Component):
  """several assignments to one register in one block; the last one executed wins, also when it equals the old value"""
  def construct(s):
    s.in_ = InPort(8); s.en = InPort(); s.sat = InPort(8); s.out = OutPort(8)
    s.r = Wire(8)
    s.out //= s.r

    @update_ff
    def ff_r():
      s.r <<= s.in_
      if s.en:
        s.r <<= s.r + 1
      if s.r == s.sat:
        s.r <<= 5
      if s.reset:
        s.r <<= 0


@bitstruct
class Pair:
  hi: Bits4
  lo: Bits8


class StructReg(Component):
  def construct(s):
    s.in_ = InPort(Pair); s.en = InPort(); s.out = OutPort(Pair); s.lo_only = OutPort(8)
    s.r = Wire(Pair)
    s.out //= s.r
    s.lo_only //= s.r.lo

    @update_ff
    def ff_struct():
      if s.en: s.r <<= s.in_


class ListRot(Component):
  """list-of-signal registers rotating in one block and reversed in another design variant"""
  def construct(s, n=4):
    s.ld = InPort(); s.in_ = [InPort(4) for _ in range(n)]
    s.regs = [Wire(4) for _ in range(n)]
    s.out = [OutPort(4) for _ in range(n)]
    for i in range(n): s.out[i] //= s.regs[i]

    @update_ff
    def ff_rot():
      for i in range(n):
        if s.ld: s.regs[i] <<= s.in_[i]
        else: s.regs[i] <<= s.regs[(i + 1) % n]


class CombChild(Component):
  def construct(s):
    s.in_ = InPort(8); s.out = OutPort(8)

    @update
    def up_comb_child():
      s.out @= s.in_ + 1


class ParentWritesChild(Component):
  """the parent's update_ff block writes a child's InPort; the child is purely combinational"""
  def construct(s):
    s.in_ = InPort(8); s.out = OutPort(8); s.cnt = OutPort(8)
    s.child = CombChild()
    s.c = Wire(8)
    s.out //= s.child.out
    s.cnt //= s.c

    @update_ff
    def ff_parent():
      s.child.in_ <<= s.in_
      s.c <<= s.c + 1


class Reader(Component):
  def construct(s):
    s.in_ = InPort(8); s.out = OutPort(8)
    s.acc = Wire(8)
    s.out //= s.acc

    @update_ff
    def ff_reader():
      s.acc <<= s.acc + s.in_


class Forwarded(Component):
  """a register whose value reaches a sequential reader in another component through a net and a comb block"""
  def construct(s):
    s.in_ = InPort(8); s.out = OutPort(8)
    s.src = Stage(); s.mid = CombChild(); s.rd = Reader()
    s.src.in_ //= s.in_
    s.mid.in_ //= s.src.out
    s.rd.in_ //= s.mid.out
    s.out //= s.rd.out


class EnReg(Component):
  def construct(s):
    s.in_ = InPort(8); s.en = InPort(); s.out = OutPort(8)

    @update_ff
    def up_enreg():
      if s.en: s.out <<= s.in_


class ManyBranchy(Component):
  """many update_ff blocks each containing a branch (scheduler packing boundaries)"""
  def construct(s, k=9):
    s.in_ = InPort(8); s.en = InPort(k)
    s.out = [OutPort(8) for _ in range(k)]
    s.r = [EnReg() for _ in range(k)]
    for i in range(k):
      s.r[i].in_ //= s.in_ if i == 0 else s.r[i - 1].out
      s.r[i].en //= s.en[i]
      s.out[i] //= s.r[i].out


class RegFileTop(Component):
  def construct(s):
    s.rf = RegisterFile(Bits8, 4, rd_ports=2, wr_ports=1)
    s.raddr = [InPort(2) for _ in range(2)]; s.rdata = [OutPort(8) for _ in range(2)]
    s.waddr = InPort(2); s.wdata = InPort(8); s.wen = InPort()
    for i in range(2):
      s.rf.raddr[i] //= s.raddr[i]; s.rdata[i] //= s.rf.rdata[i]
    s.rf.waddr[0] //= s.waddr; s.rf.wdata[0] //= s.wdata; s.rf.wen[0] //= s.wen


class RegEnRstTop(Component):
  def construct(s):
    s.r = RegEnRst(Bits8, reset_value=3)
    s.in_ = InPort(8); s.en = InPort(); s.out = OutPort(8)
    s.r.in_ //= s.in_; s.r.en //= s.en; s.out //= s.r.out


@bitstruct
class Grid:
  tag: Bits3
  g: [[Bits4] * 3] * 2
  h: [Bits2] * 3


class StructListReg(Component):
  """struct-typed register with multi-dimensional (non-square) and 1-D list fields"""
  def construct(s):
    s.in_ = InPort(Grid); s.en = InPort(); s.out = OutPort(Grid); s.pick = OutPort(4)
    s.r = Wire(Grid)
    s.out //= s.r
    s.pick //= s.r.g[1][2]
    @update_ff
    def ff_grid():
      if s.en: s.r <<= s.in_


class NegLiteral(Component):
  """registers assigned negative and boundary Python ints"""
  def construct(s):
    s.sel = InPort(2); s.out = OutPort(8); s.b = OutPort(1)
    s.r = Wire(8); s.q = Wire(1)
    s.out //= s.r; s.b //= s.q
    @update_ff
    def ff_neg():
      if s.sel == 0:   s.r <<= -1
      elif s.sel == 1: s.r <<= -128
      elif s.sel == 2: s.r <<= 255
      else:            s.r <<= s.r + 1
      s.q <<= -1


class TwoRegsPlusChild(Component):
  """a component owning two registers plus a direct child owning exactly one (and a grandchild owning one)"""
  def construct(s):
    s.in_ = InPort(8); s.o1 = OutPort(8); s.o2 = OutPort(8); s.o3 = OutPort(8); s.o4 = OutPort(8)
    s.r1 = Wire(8); s.r2 = Wire(8)
    s.child = Stage()
    s.mid = ShiftChain(1)
    s.child.in_ //= s.in_; s.mid.in_ //= s.child.out
    s.o1 //= s.r1; s.o2 //= s.r2; s.o3 //= s.child.out; s.o4 //= s.mid.out
    @update_ff
    def ff_two():
      s.r1 <<= s.in_ + 1
      s.r2 <<= s.r1 ^ s.child.out


class OneRegPlusTwoChildren(Component):
  def construct(s):
    s.in_ = InPort(8); s.out = OutPort(8)
    s.a = Stage(); s.b = TwoRegsPlusChild()
    s.r = Wire(8)
    s.a.in_ //= s.in_; s.b.in_ //= s.a.out
    @update_ff
    def ff_one(): s.r <<= s.b.o2 + s.b.o4
    s.out //= s.r


class NoDataInputs(Component):
  """no data input ports at all: a counter whose combinational logic depends on reset"""
  def construct(s):
    s.out = OutPort(8); s.nxt = Wire(8); s.cnt = Wire(8); s.flag = OutPort()
    @update
    def up_nxt():
      if s.reset: s.nxt @= 0x55
      else:       s.nxt @= s.cnt + 3
      s.flag @= s.reset
    @update_ff
    def ff_cnt(): s.cnt <<= s.nxt
    s.out //= s.cnt


class FuncFF(Component):
  """registers assigned inside function helpers called from update_ff blocks (directly and through another helper)"""
  def construct(s):
    s.in_ = InPort(8); s.en = InPort(); s.o1 = OutPort(8); s.o2 = OutPort(8); s.o3 = OutPort(8)
    s.r1 = Wire(8); s.r2 = Wire(8); s.r3 = Wire(8)
    s.o1 //= s.r1; s.o2 //= s.r2; s.o3 //= s.r3
    @s.func
    def load1(v): s.r1 <<= v
    @s.func
    def load2(v):
      if s.en: s.r2 <<= v + s.r1
    @s.func
    def both(v):
      load2(v)
      s.r3 <<= s.r2
    @update_ff
    def ff_f1(): load1(s.in_ + 1)
    @update_ff
    def ff_f2(): both(s.in_)


class NegIdx(Component):
  """list-of-signal registers addressed with negative literal indices"""
  def construct(s):
    s.in_ = InPort(4); s.out = OutPort(4); s.mid = OutPort(4)
    s.taps = [Wire(4) for _ in range(4)]
    s.out //= s.taps[3]; s.mid //= s.taps[1]
    @update_ff
    def ff_neg_idx():
      s.taps[0] <<= s.in_
      s.taps[1] <<= s.taps[0]
      s.taps[-2] <<= s.taps[1]
      s.taps[-1] <<= s.taps[-2] ^ s.taps[0]


class StructChain(Component):
  """struct registers loaded directly from other struct registers (whole and a nested field), in both name orders"""
  def construct(s):
    s.in_ = InPort(Grid); s.oa = OutPort(Grid); s.ob = OutPort(Grid); s.oz = OutPort(Pair); s.op = OutPort(Pair)
    s.a = Wire(Grid); s.b = Wire(Grid); s.z = Wire(Pair); s.p = Wire(Pair); s.pin = InPort(Pair)
    s.oa //= s.a; s.ob //= s.b; s.oz //= s.z; s.op //= s.p
    @update_ff
    def ff_sc():
      s.a <<= s.in_
      s.b <<= s.a
      s.z <<= s.pin
      s.p <<= s.z


DESIGNS = {
  'FuncFF': lambda: FuncFF(), 'NegIdx': lambda: NegIdx(), 'StructChain': lambda: StructChain(),
  'StructListReg': lambda: StructListReg(),
  'NegLiteral': lambda: NegLiteral(),
  'TwoRegsPlusChild': lambda: TwoRegsPlusChild(),
  'OneRegPlusTwoChildren': lambda: OneRegPlusTwoChildren(),
  'NoDataInputs': lambda: NoDataInputs(),
  'Swap': lambda: Swap(),
  'ShiftChain3': lambda: ShiftChain(3),
  'CondMulti': lambda: CondMulti(),
  'StructReg': lambda: StructReg(),
  'ListRot4': lambda: ListRot(4),
  'ParentWritesChild': lambda: ParentWritesChild(),
  'Forwarded': lambda: Forwarded(),
  'ManyBranchy9': lambda: ManyBranchy(9),
  'RegFile': lambda: RegFileTop(),
  'RegEnRst': lambda: RegEnRstTop(),
  # larger instances (thorough tier of C07): more blocks than any packing boundary of the Mamba meta blocks, longer chains
  'ShiftChain7': lambda: ShiftChain(7),
  'ListRot7': lambda: ListRot(7),
  'ManyBranchy21': lambda: ManyBranchy(21),
  'ManyBranchy10': lambda: ManyBranchy(10),
  'ManyBranchy11': lambda: ManyBranchy(11),
}
