"""TinyRV0 program skeletons for C20 (assembly text for the repo's assembler).  Values after '<' are placeholders:
every mngr2proc value is replaced by a symbolic 32-bit value; expected proc2mngr values come from the ISA interpreter."""

BASE = """
  addi x10, x0, 1
  addi x11, x0, 13
  sll  x10, x10, x11
  addi x12, x0, 12
"""     # x10 = 0x2000 (data window base), x12 = 12 (mask: word offsets 0,4,8,12)

PROGS = {
  'alu_chain': """
  csrr x1, mngr2proc < 1
  csrr x2, mngr2proc < 2
  add  x3, x1, x2
  addi x4, x3, 5
  and  x5, x4, x1
  sll  x6, x5, x2
  srl  x7, x6, x1
  add  x8, x7, x7
  csrw proc2mngr, x7 > 0
  csrw proc2mngr, x3 > 0
  csrw proc2mngr, x8 > 0
""",
  'shifts': """
  csrr x1, mngr2proc < 1
  csrr x2, mngr2proc < 2
  srl  x3, x1, x2
  sll  x4, x1, x2
  srl  x5, x4, x2
  csrw proc2mngr, x3 > 0
  csrw proc2mngr, x4 > 0
  csrw proc2mngr, x5 > 0
""",
  'raw_distances': """
  csrr x1, mngr2proc < 1
  addi x2, x1, 1
  addi x3, x2, 1
  add  x4, x2, x3
  addi x5, x0, 7
  add  x6, x4, x1
  and  x7, x6, x5
  csrw proc2mngr, x4 > 0
  csrw proc2mngr, x7 > 0
""",
  'store_load': BASE + """
  csrr x1, mngr2proc < 1
  csrr x2, mngr2proc < 2
  and  x2, x2, x12
  add  x3, x10, x2
  sw   x1, 0(x3)
  lw   x4, 0(x10)
  lw   x5, 4(x10)
  add  x6, x4, x5
  sw   x6, 8(x10)
  lw   x7, 8(x10)
  csrw proc2mngr, x4 > 0
  csrw proc2mngr, x7 > 0
""",
  'load_use_branch': BASE + """
  csrr x1, mngr2proc < 1
  sw   x1, 0(x10)
  addi x3, x0, 3
  lw   x2, 0(x10)
  bne  x2, x3, skip
  addi x3, x3, 100
skip:
  lw   x4, 0(x10)
  bne  x4, x0, done
  addi x3, x3, 7
done:
  csrw proc2mngr, x3 > 0
  csrw proc2mngr, x2 > 0
""",
  'csrw_then_branch': """
  csrr x1, mngr2proc < 1
  csrr x2, mngr2proc < 2
  csrw proc2mngr, x1 > 0
  bne  x1, x2, tgt
  addi x1, x1, 1
  addi x1, x1, 2
tgt:
  addi x1, x1, 8
  csrw proc2mngr, x1 > 0
  bne  x2, x0, tgt2
  addi x1, x1, 16
tgt2:
  csrw proc2mngr, x1 > 0
""",
  'back_loop': """
  csrr x1, mngr2proc < 1
  addi x5, x0, 3
  and  x1, x1, x5
  addi x1, x1, 1
  addi x2, x0, 0
loop:
  add  x2, x2, x1
  addi x1, x1, -1
  bne  x1, x0, loop
  csrw proc2mngr, x2 > 0
""",
  'csr_back_to_back': """
  csrr x1, mngr2proc < 1
  csrr x2, mngr2proc < 2
  csrr x3, mngr2proc < 3
  csrw proc2mngr, x1 > 0
  csrw proc2mngr, x2 > 0
  csrw proc2mngr, x3 > 0
  add  x4, x1, x3
  csrw proc2mngr, x4 > 0
""",
}


# hazard adjacency patterns: <producer sequence> ; bne (direction symbolic) ; fall-through ; target
def _adj(name, pre):
  PROGS['adj_' + name] = BASE + '''
  csrr x1, mngr2proc < 1
  csrr x3, mngr2proc < 2
  addi x2, x0, 0
  sw   x1, 4(x10)
''' + pre + '''
  bne  x1, x3, T
  addi x2, x2, 1
  addi x2, x2, 2
T:
  addi x2, x2, 8
  addi x2, x2, 16
  csrw proc2mngr, x2 > 0
  lw   x6, 4(x10)
  csrw proc2mngr, x6 > 0
'''

_adj('csrw_csrw', "  csrw proc2mngr, x1 > 0\n  csrw proc2mngr, x1 > 0")
_adj('csrw_csrw_csrw', "  csrw proc2mngr, x1 > 0\n  csrw proc2mngr, x3 > 0\n  csrw proc2mngr, x1 > 0")
_adj('lw', "  lw   x1, 4(x10)")
_adj('sw_lw', "  sw   x3, 8(x10)\n  lw   x4, 8(x10)\n  add  x1, x1, x4")
_adj('csrw_lw', "  csrw proc2mngr, x1 > 0\n  lw   x5, 4(x10)\n  csrw proc2mngr, x5 > 0")

_adj('lw_lw', "  lw   x4, 4(x10)\n  lw   x1, 4(x10)")
_adj('lw_lw_add', "  lw   x4, 4(x10)\n  lw   x5, 4(x10)\n  add  x1, x4, x0")
_adj('sw_sw', "  sw   x3, 8(x10)\n  sw   x1, 12(x10)")


# side-effecting instructions in the shadow of a (symbolic-direction) branch: they must not take effect when the branch is taken
def _shadow(name, shadow, tail=''):
  PROGS['shadow_' + name] = BASE + '''
  csrr x1, mngr2proc < 1
  csrr x3, mngr2proc < 2
  addi x2, x0, 5
  sw   x2, 4(x10)
  bne  x1, x3, T
''' + shadow + '''
T:
  csrr x6, mngr2proc < 3
  lw   x7, 4(x10)
  add  x8, x6, x7
  csrw proc2mngr, x8 > 0
  csrw proc2mngr, x2 > 0
''' + tail

_shadow('csrr', "  csrr x2, mngr2proc < 9\n  addi x2, x2, 1")
_shadow('csrw', "  csrw proc2mngr, x1 > 0\n  addi x2, x2, 1")
_shadow('sw', "  sw   x1, 4(x10)\n  addi x2, x2, 1")
_shadow('lw_csrw', "  lw   x2, 4(x10)\n  csrw proc2mngr, x2 > 0")

# immediate boundaries: most negative / most positive I-immediates, negative load/store offsets, far forward and backward branches
PROGS['imm_boundaries'] = BASE + '''
  csrr x1, mngr2proc < 1
  addi x2, x1, -2048
  addi x3, x1, 2047
  addi x4, x10, 8
  sw   x2, -4(x4)
  sw   x3, -8(x4)
  lw   x5, -4(x4)
  lw   x6, -8(x4)
  add  x7, x5, x6
  csrw proc2mngr, x7 > 0
  csrw proc2mngr, x2 > 0
'''
_NOPS = "\n".join("  addi x0, x0, 0" for _ in range(515))
PROGS['far_forward_branch'] = '''
  csrr x1, mngr2proc < 1
  csrr x2, mngr2proc < 2
  addi x3, x0, 1
  bne  x1, x2, FAR
  addi x3, x3, 2
  bne  x3, x0, FAR2
''' + _NOPS.replace("\\n", "\n") + '''
FAR:
  addi x3, x3, 4
FAR2:
  addi x3, x3, 8
  csrw proc2mngr, x3 > 0
'''
PROGS['far_backward_branch'] = '''
  csrr x1, mngr2proc < 1
  addi x4, x0, 1
  and  x1, x1, x4
  addi x3, x0, 0
  bne  x0, x4, START
BACK:
  addi x3, x3, 8
  csrw proc2mngr, x3 > 0
  bne  x0, x4, END
''' + _NOPS.replace("\\n", "\n") + '''
START:
  addi x3, x3, 1
  bne  x1, x0, BACK
  addi x3, x3, 2
  csrw proc2mngr, x3 > 0
END:
  addi x0, x0, 0
'''

# (src_delay, sink_delay, mem_latency)
# a loaded value used as STORE DATA by the very next instruction (and two instructions later); loads feeding loads
PROGS['lw_sw_data'] = BASE + '''
  csrr x1, mngr2proc < 1
  csrr x3, mngr2proc < 2
  sw   x1, 4(x10)
  sw   x3, 0(x10)
  lw   x5, 4(x10)
  sw   x5, 8(x10)
  lw   x6, 0(x10)
  addi x7, x6, 1
  sw   x6, 12(x10)
  lw   x8, 8(x10)
  lw   x9, 12(x10)
  csrw proc2mngr, x8 > 0
  csrw proc2mngr, x9 > 0
  csrw proc2mngr, x7 > 0
'''

# x0 is hard-wired to zero: writes to it (alu, load, csrr) are discarded, also when it is read much later
PROGS['x0_writes'] = BASE + '''
  csrr x1, mngr2proc < 1
  sw   x1, 4(x10)
  addi x0, x1, 4
  lw   x0, 4(x10)
  csrr x0, mngr2proc < 2
  add  x0, x1, x1
  addi x2, x1, 1
  addi x3, x2, 1
  addi x4, x3, 1
  addi x5, x4, 1
  add  x6, x0, x0
  addi x7, x0, 3
  sw   x0, 8(x10)
  lw   x8, 8(x10)
  csrw proc2mngr, x6 > 0
  csrw proc2mngr, x7 > 0
  csrw proc2mngr, x8 > 0
  csrw proc2mngr, x5 > 0
'''

# a csrw waiting for the manager while memory instructions fill the stages behind it
PROGS['csrw_backpressure'] = BASE + '''
  csrr x1, mngr2proc < 1
  csrr x3, mngr2proc < 2
  sw   x1, 4(x10)
  csrw proc2mngr, x1 > 0
  lw   x4, 4(x10)
  sw   x3, 8(x10)
  lw   x5, 8(x10)
  csrw proc2mngr, x3 > 0
  add  x6, x4, x5
  sw   x6, 12(x10)
  csrw proc2mngr, x4 > 0
  lw   x7, 12(x10)
  csrw proc2mngr, x5 > 0
  csrw proc2mngr, x7 > 0
'''

TIMINGS = [(0, 0, 1), (0, 3, 2), (3, 0, 3), (0, 2, 1), (3, 3, 2), (0, 5, 2), (2, 1, 1)]
