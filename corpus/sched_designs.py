"""Schedule corpus (C01, C02, C08, C11): a generator of small components crossing write shape x read shape x
connection shape over a Bits wire, a struct and a nested struct, plus hand-written multi-block designs.
Deterministic: 'shape:<i>' always names the same design.  Sources are written to a scratch dir at run time."""
import importlib.util
import itertools
import os
import sys
import tempfile

HDR = '''from pymtl3 import *
@bitstruct
class P:
  a: Bits4
  b: Bits4
@bitstruct
class Q:
  x: P
  y: Bits4
'''
bits_shapes = [('s.w', 8), ('s.w[0:4]', 4), ('s.w[4:8]', 4), ('s.w[2:6]', 4), ('s.w[3]', 1), ('s.w[0:8]', 8), ('s.w[1:7]', 6)]
p_shapes = [('s.p', 8), ('s.p.a', 4), ('s.p.b', 4), ('s.p.a[0:2]', 2), ('s.p.a[1:3]', 2)]
q_shapes = [('s.q', 12), ('s.q.x', 8), ('s.q.x.a', 4), ('s.q.y', 4), ('s.q.x.a[0:2]', 2), ('s.q.x.a[1:4]', 3)]


def _wholetype(e): return {'s.p': 'P', 's.q': 'Q', 's.q.x': 'P'}.get(e)
def _wtype(e, w): return _wholetype(e) or f'Bits{w}'


def _rhs(width, typ):
  if typ == 'P': return 'P(s.in_[0:4], s.in_[4:8])'
  if typ == 'Q': return 'Q(P(s.in_[0:4], s.in_[4:8]), s.in_[2:6])'
  return f's.in_[0:{width}] + 1' if width > 1 else 's.in_[0] ^ 1'


def _read(expr, width, whole):
  if whole == 'P': return f's.out @= zext(concat({expr}.a, {expr}.b), 12)'
  if whole == 'Q': return f's.out @= concat({expr}.x.a, {expr}.x.b, {expr}.y)'
  return f's.out @= zext({expr}, 12)' if width < 12 else f's.out @= {expr}'


def _gen():
  out = []
  fams = ((bits_shapes, 's.w = Wire(Bits8)'), (p_shapes, 's.p = Wire(P)'), (q_shapes, 's.q = Wire(Q)'))
  for fam, decl in fams:
    for (wt, ww), (rt_, rw) in itertools.product(fam, fam):
      out.append(('direct', wt, rt_, f'''
    s.in_ = InPort(Bits8); s.out = OutPort(Bits12)
    {decl}
    @update
    def upW():
      {wt} @= {_rhs(ww, _wholetype(wt))}
    @update
    def upR():
      {_read(rt_, rw, _wholetype(rt_))}
'''))
      out.append(('net_reads', wt, rt_, f'''
    s.in_ = InPort(Bits8); s.out = OutPort(Bits12)
    {decl}
    s.x = Wire({_wtype(rt_, rw)})
    s.x //= {rt_}
    @update
    def upW():
      {wt} @= {_rhs(ww, _wholetype(wt))}
    @update
    def upR():
      {_read('s.x', rw, _wholetype(rt_))}
'''))
      out.append(('net_drives', wt, rt_, f'''
    s.in_ = InPort(Bits8); s.out = OutPort(Bits12)
    {decl}
    s.x = Wire({_wtype(wt, ww)})
    {wt} //= s.x
    @update
    def upW():
      s.x @= {_rhs(ww, _wholetype(wt))}
    @update
    def upR():
      {_read(rt_, rw, _wholetype(rt_))}
'''))
  return out


HAND = {
  'hand:Seven': '''
    s.in_ = InPort(Bits8); s.out = OutPort(Bits8)
    s.w = Wire(Bits8); s.p = Wire(P); s.q = Wire(Bits8); s.r = Wire(Bits8)
    @update
    def u1(): s.w[0:4] @= s.in_[0:4] + 1
    @update
    def u2(): s.w[4:8] @= s.in_[4:8] ^ 5
    @update
    def u3(): s.p.a @= s.w[2:6]
    @update
    def u4(): s.p.b @= s.in_[0:4]
    @update
    def u5(): s.q @= concat(s.p.a, s.p.b) + s.r
    @update
    def u6(): s.r @= zext(s.w[0:2], 8)
    s.out //= s.q
''',
  'hand:ComputedIndexWrite': '''
    s.in_ = InPort(Bits8); s.out = OutPort(Bits8)
    s.sel = Wire(Bits2); s.outs = [Wire(Bits8) for _ in range(4)]; s.hot = Wire(Bits4)
    @update
    def up_sel(): s.sel @= s.in_[0:2] + 1
    @update
    def up_outs():
      for i in range(4): s.outs[i] @= 0
      s.outs[s.sel ^ 1] @= s.in_
    @update
    def up_hot():
      s.hot @= 0
      s.hot[s.sel[0:2]] @= 1
    @update
    def up_out(): s.out @= s.outs[1] ^ s.outs[2] ^ zext(s.hot, 8)
''',
  'hand:ExplicitConstraint': '''
    s.in_ = InPort(Bits8); s.out = OutPort(Bits8)
    s.a = Wire(Bits8); s.b = Wire(Bits8)
    @update
    def upA(): s.a @= s.in_ + 1
    @update
    def upB(): s.b @= s.in_ + 2
    @update
    def upO(): s.out @= s.a ^ s.b
    s.add_constraints( U(upA) < U(upB) )
''',
  'hand:ListElems': '''
    s.in_ = InPort(Bits8); s.out = OutPort(Bits8)
    s.v = [Wire(Bits8) for _ in range(3)]
    @update
    def upV0(): s.v[0] @= s.in_ + 1
    @update
    def upV1(): s.v[1] @= s.v[0] + 1
    @update
    def upV2(): s.v[2] @= s.v[s.in_[0:1]] + s.v[1]
    @update
    def upO(): s.out @= s.v[2]
''',
  'hand:SliceAndWhole': '''
    s.in_ = InPort(Bits4); s.q = OutPort(Bits4); s.z = OutPort(Bits8); s.w = Wire(Bits8); s.p = Wire(P); s.pz = OutPort(Bits8)
    @update
    def upW():
      s.w[0:4] @= s.in_
      s.p.a @= s.in_ + 1
    @update
    def upHi():
      s.w[4:8] @= s.in_ ^ 9
      s.p.b @= s.in_ ^ 5
    @update
    def upQ(): s.q @= s.w[0:4] ^ s.p.a
    @update
    def upZ():
      s.z @= s.w + 1
    @update
    def upPz():
      s.pz @= concat(s.p.a, s.p.b)
''',
  'hand:FuncShared': '''
    s.in_ = InPort(Bits8); s.o1 = OutPort(Bits8); s.o2 = OutPort(Bits8); s.o3 = OutPort(Bits8); s.a = Wire(Bits8); s.b = Wire(Bits8)
    @s.func
    def mix(v): return (s.a ^ 0x3c) + v
    @s.func
    def deep(v): return mix(v) + s.b
    @update
    def up_3(): s.o3 @= deep(s.in_)
    @update
    def up_2(): s.o2 @= mix(s.in_) + 1
    @update
    def up_1(): s.o1 @= mix(Bits8(1))
    @update
    def up_b(): s.b @= s.a + 1
    @update
    def up_a(): s.a @= s.in_ + 1
''',
  'hand:FuncWrites': '''
    s.in_ = InPort(Bits8); s.o1 = OutPort(Bits8); s.o2 = OutPort(Bits8); s.a = Wire(Bits8); s.b = Wire(Bits8); s.c = Wire(Bits8)
    @s.func
    def base(v): return v + s.c
    @s.func
    def set_a(v): s.a @= base(v)
    @s.func
    def set_b(v): s.b @= base(v) ^ 0x55
    @update
    def up_o1(): s.o1 @= s.a + s.b
    @update
    def up_o2(): s.o2 @= s.b
    @update
    def up_wa(): set_a(s.in_)
    @update
    def up_wb(): set_b(s.in_ + 1)
    @update
    def up_c(): s.c @= s.in_ ^ 0x0f
''',
  'hand:NameClash': None,   # built below: many blocks whose names are prefixes of each other
}


def _nameclash():
  src = '''
class StageA(Component):
  def construct(s):
    s.in_ = InPort(Bits8); s.out = OutPort(Bits8)
    @update
    def up1(): s.out @= s.in_ + 1
class StageB(Component):
  def construct(s):
    s.in_ = InPort(Bits8); s.out = OutPort(Bits8)
    @update
    def up(): s.out @= (s.in_ << 1) ^ s.in_
class StageC(Component):
  def construct(s):
    s.in_ = InPort(Bits8); s.out = OutPort(Bits8)
    @update
    def up11(): s.out @= s.in_ - 3
class HandNameClash(Component):
  def construct(s):
    s.in_ = InPort(Bits8); s.out = OutPort(Bits8)
    s.a = [StageA() for _ in range(5)]; s.b = [StageB() for _ in range(7)]; s.c = [StageC() for _ in range(2)]
    ch = s.a + s.b + s.c
    ch[0].in_ //= s.in_
    for i in range(1, len(ch)): ch[i].in_ //= ch[i-1].out
    s.out //= ch[-1].out
'''
  return src


_mod = None
_names = None


def _build():
  global _mod, _names
  if _mod is not None: return
  gen = _gen()
  src = HDR
  names = {}
  for i, (mode, wt, rt_, body) in enumerate(gen):
    src += f"\nclass Shape{i}(Component):\n  def construct(s):{body}\n"
    names[f"shape:{i}"] = (f"Shape{i}", f"{mode}: W {wt} / R {rt_}")
  for k, body in HAND.items():
    cn = 'Hand' + k.split(':')[1]
    if body is None: src += _nameclash()
    else: src += f"\nclass {cn}(Component):\n  def construct(s):{body}\n"
    names[k] = (cn, k)
  d = tempfile.mkdtemp(prefix='schedgen_', dir=os.environ.get('VERIF_SCRATCH') or None)
  fn = os.path.join(d, 'verif_sched_mod.py')
  with open(fn, 'w') as f: f.write(src)
  spec = importlib.util.spec_from_file_location('verif_sched_mod', fn)
  _mod = importlib.util.module_from_spec(spec)
  sys.modules['verif_sched_mod'] = _mod
  spec.loader.exec_module(_mod)
  _names = names


def names():
  _build(); return list(_names)


def get(name):
  _build(); return getattr(_mod, _names[name][0])


def describe(name):
  _build(); return _names[name][1]
