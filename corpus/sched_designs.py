"""Schedule corpus (C01, C02, C08, C11): a generator of small components crossing write shape x read shape x
connection shape over a Bits wire, a struct and a nested struct, plus hand-written multi-block designs.
Deterministic: 'shape:<i>' always names the same design.  Sources are written to a scratch dir at run time."""
import importlib.util
import itertools
import os
import sys
import tempfile

HDR = '''from pymtl3 import *
@bitstruct
class P:
  a: Bits4
  b: Bits4
@bitstruct
class Q:
  x: P
  y: Bits4
'''
bits_shapes = [('s.w', 8), ('s.w[0:4]', 4), ('s.w[4:8]', 4), ('s.w[2:6]', 4), ('s.w[3]', 1), ('s.w[0:8]', 8), ('s.w[1:7]', 6)]
p_shapes = [('s.p', 8), ('s.p.a', 4), ('s.p.b', 4), ('s.p.a[0:2]', 2), ('s.p.a[1:3]', 2)]
q_shapes = [('s.q', 12), ('s.q.x', 8), ('s.q.x.a', 4), ('s.q.y', 4), ('s.q.x.a[0:2]', 2), ('s.q.x.a[1:4]', 3)]


def _wholetype(e): return {'s.p': 'P', 's.q': 'Q', 's.q.x': 'P'}.get(e)
def _wtype(e, w): return _wholetype(e) or f'Bits{w}'


def _rhs(width, typ):
  if typ == 'P': return 'P(s.in_[0:4], s.in_[4:8])'
  if typ == 'Q': return 'Q(P(s.in_[0:4], s.in_[4:8]), s.in_[2:6])'
  return f's.in_[0:{width}] + 1' if width > 1 else 's.in_[0] ^ 1'


def _read(expr, width, whole):
  if whole == 'P': return f's.out @= zext(concat({expr}.a, {expr}.b), 12)'
  if whole == 'Q': return f's.out @= concat({expr}.x.a, {expr}.x.b, {expr}.y)'
  return f's.out @= zext({expr}, 12)' if width < 12 else f's.out @= {expr}'


def _gen():
  out = []
  fams = ((bits_shapes, 's.w = Wire(Bits8)'), (p_shapes, 's.p = Wire(P)'), (q_shapes, 's.q = Wire(Q)'))
  for fam, decl in fams:
    for (wt, ww), (rt_, rw) in itertools.product(fam, fam):
      out.append(('direct', wt, rt_, f'''
    s.in_ = InPort(Bits8); s.out = OutPort(Bits12)
    {decl}
    @update
    def upW():
      {wt} @= {_rhs(ww, _wholetype(wt))}
    @update
    def upR():
      {_read(rt_, rw, _wholetype(rt_))}
'''))
      out.append(('net_reads', wt, rt_, f'''
    s.in_ = InPort(Bits8); s.out = OutPort(Bits12)
    {decl}
    s.x = Wire({_wtype(rt_, rw)})
    s.x //= {rt_}
    @update
    def upW():
      {wt} @= {_rhs(ww, _wholetype(wt))}
    @update
    def upR():
      {_read('s.x', rw, _wholetype(rt_))}
'''))
      out.append(('net_drives', wt, rt_, f'''
    s.in_ = InPort(Bits8); s.out = OutPort(Bits12)
    {decl}
    s.x = Wire({_wtype(wt, ww)})
    {wt} //= s.x
    @update
    def upW():
      s.x @= {_rhs(ww, _wholetype(wt))}
    @update
    def upR():
      {_read(rt_, rw, _wholetype(rt_))}
'''))
  return out


HAND = {
  'hand:Seven': '''
    s.in_ = InPort(Bits8); s.out = OutPort(Bits8)
    s.w = Wire(Bits8); s.p = Wire(P); s.q = Wire(Bits8); s.r = Wire(Bits8)
    @update
    def u1(): s.w[0:4] @= s.in_[0:4] + 1
    @update
    def u2(): s.w[4:8] @= s.in_[4:8] ^ 5
    @update
    def u3(): s.p.a @= s.w[2:6]
    @update
    def u4(): s.p.b @= s.in_[0:4]
    @update
    def u5(): s.q @= concat(s.p.a, s.p.b) + s.r
    @update
    def u6(): s.r @= zext(s.w[0:2], 8)
    s.out //= s.q
''',
  'hand:ComputedIndexWrite': '''
    s.in_ = InPort(Bits8); s.out = OutPort(Bits8)
    s.sel = Wire(Bits2); s.outs = [Wire(Bits8) for _ in range(4)]; s.hot = Wire(Bits4)
    @update
    def up_sel(): s.sel @= s.in_[0:2] + 1
    @update
    def up_outs():
      for i in range(4): s.outs[i] @= 0
      s.outs[s.sel ^ 1] @= s.in_
    @update
    def up_hot():
      s.hot @= 0
      s.hot[s.sel[0:2]] @= 1
    @update
    def up_out(): s.out @= s.outs[1] ^ s.outs[2] ^ zext(s.hot, 8)
''',
  'hand:ExplicitConstraint': '''
    s.in_ = InPort(Bits8); s.out = OutPort(Bits8)
    s.a = Wire(Bits8); s.b = Wire(Bits8)
    @update
    def upA(): s.a @= s.in_ + 1
    @update
    def upB(): s.b @= s.in_ + 2
    @update
    def upO(): s.out @= s.a ^ s.b
    s.add_constraints( U(upA) < U(upB) )
''',
  'hand:ListElems': '''
    s.in_ = InPort(Bits8); s.out = OutPort(Bits8)
    s.v = [Wire(Bits8) for _ in range(3)]
    @update
    def upV0(): s.v[0] @= s.in_ + 1
    @update
    def upV1(): s.v[1] @= s.v[0] + 1
    @update
    def upV2(): s.v[2] @= s.v[s.in_[0:1]] + s.v[1]
    @update
    def upO(): s.out @= s.v[2]
''',
  'hand:SliceAndWhole': '''
    s.in_ = InPort(Bits4); s.q = OutPort(Bits4); s.z = OutPort(Bits8); s.w = Wire(Bits8); s.p = Wire(P); s.pz = OutPort(Bits8)
    @update
    def upW():
      s.w[0:4] @= s.in_
      s.p.a @= s.in_ + 1
    @update
    def upHi():
      s.w[4:8] @= s.in_ ^ 9
      s.p.b @= s.in_ ^ 5
    @update
    def upQ(): s.q @= s.w[0:4] ^ s.p.a
    @update
    def upZ():
      s.z @= s.w + 1
    @update
    def upPz():
      s.pz @= concat(s.p.a, s.p.b)
''',
  'hand:FuncShared': '''
    s.in_ = InPort(Bits8); s.o1 = OutPort(Bits8); s.o2 = OutPort(Bits8); s.o3 = OutPort(Bits8); s.a = Wire(Bits8); s.b = Wire(Bits8)
    @s.func
    def mix(v): return (s.a ^ 0x3c) + v
    @s.func
    def deep(v): return mix(v) + s.b
    @update
    def up_3(): s.o3 @= deep(s.in_)
    @update
    def up_2(): s.o2 @= mix(s.in_) + 1
    @update
    def up_1(): s.o1 @= mix(Bits8(1))
    @update
    def up_b(): s.b @= s.a + 1
    @update
    def up_a(): s.a @= s.in_ + 1
''',
  'hand:FuncWrites': '''
    s.in_ = InPort(Bits8); s.o1 = OutPort(Bits8); s.o2 = OutPort(Bits8); s.a = Wire(Bits8); s.b = Wire(Bits8); s.c = Wire(Bits8)
    @s.func
    def base(v): return v + s.c
    @s.func
    def set_a(v): s.a @= base(v)
    @s.func
    def set_b(v): s.b @= base(v) ^ 0x55
    @update
    def up_o1(): s.o1 @= s.a + s.b
    @update
    def up_o2(): s.o2 @= s.b
    @update
    def up_wa(): set_a(s.in_)
    @update
    def up_wb(): set_b(s.in_ + 1)
    @update
    def up_c(): s.c @= s.in_ ^ 0x0f
''',
  'hand:MetaChain23': '''
    s.in_ = InPort(Bits8); s.out = OutPort(Bits8); s.v = [Wire(Bits8) for _ in range(23)]
    @update
    def st0(): s.v[0] @= s.in_ + 1
    @update
    def st1():
      if s.v[0][0]: s.v[1] @= s.v[0] + 1
      else: s.v[1] @= s.v[0] ^ 1
    @update
    def st2(): s.v[2] @= s.v[1] + 2
    @update
    def st3():
      if s.v[2][0]: s.v[3] @= s.v[2] + 3
      else: s.v[3] @= s.v[2] ^ 3
    @update
    def st4(): s.v[4] @= s.v[3] + 4
    @update
    def st5():
      if s.v[4][0]: s.v[5] @= s.v[4] + 5
      else: s.v[5] @= s.v[4] ^ 5
    @update
    def st6(): s.v[6] @= s.v[5] + 6
    @update
    def st7():
      if s.v[6][0]: s.v[7] @= s.v[6] + 7
      else: s.v[7] @= s.v[6] ^ 7
    @update
    def st8(): s.v[8] @= s.v[7] + 8
    @update
    def st9():
      if s.v[8][0]: s.v[9] @= s.v[8] + 9
      else: s.v[9] @= s.v[8] ^ 9
    @update
    def st10(): s.v[10] @= s.v[9] + 10
    @update
    def st11():
      if s.v[10][0]: s.v[11] @= s.v[10] + 11
      else: s.v[11] @= s.v[10] ^ 11
    @update
    def st12(): s.v[12] @= s.v[11] + 12
    @update
    def st13():
      if s.v[12][0]: s.v[13] @= s.v[12] + 13
      else: s.v[13] @= s.v[12] ^ 13
    @update
    def st14(): s.v[14] @= s.v[13] + 14
    @update
    def st15():
      if s.v[14][0]: s.v[15] @= s.v[14] + 15
      else: s.v[15] @= s.v[14] ^ 15
    @update
    def st16(): s.v[16] @= s.v[15] + 16
    @update
    def st17():
      if s.v[16][0]: s.v[17] @= s.v[16] + 17
      else: s.v[17] @= s.v[16] ^ 17
    @update
    def st18(): s.v[18] @= s.v[17] + 18
    @update
    def st19():
      if s.v[18][0]: s.v[19] @= s.v[18] + 19
      else: s.v[19] @= s.v[18] ^ 19
    @update
    def st20(): s.v[20] @= s.v[19] + 20
    @update
    def st21():
      if s.v[20][0]: s.v[21] @= s.v[20] + 21
      else: s.v[21] @= s.v[20] ^ 21
    @update
    def st22(): s.v[22] @= s.v[21] + 22
    @update
    def st_out(): s.out @= s.v[22]
''',
  'hand:Branchy22': '''
    s.in_ = InPort(Bits8); s.sel = InPort(Bits5); s.out = OutPort(Bits8); s.cnt = Wire(Bits8); s.k = Wire(Bits8); s.o2 = OutPort(Bits8)
    @update
    def up_incr(): s.cnt @= s.in_ + 1
    @update
    def up_k(): s.k @= s.in_ ^ 0x33
    @update
    def up_decode():
      s.out @= s.cnt
      if s.sel == 0: s.out @= s.cnt + s.k + 0
      if s.sel == 1: s.out @= s.cnt + s.k + 1
      if s.sel == 2: s.out @= s.cnt + s.k + 2
      if s.sel == 3: s.out @= s.cnt + s.k + 3
      if s.sel == 4: s.out @= s.cnt + s.k + 4
      if s.sel == 5: s.out @= s.cnt + s.k + 5
      if s.sel == 6: s.out @= s.cnt + s.k + 6
      if s.sel == 7: s.out @= s.cnt + s.k + 7
      if s.sel == 8: s.out @= s.cnt + s.k + 8
      if s.sel == 9: s.out @= s.cnt + s.k + 9
      if s.sel == 10: s.out @= s.cnt + s.k + 10
      if s.sel == 11: s.out @= s.cnt + s.k + 11
      if s.sel == 12: s.out @= s.cnt + s.k + 12
      if s.sel == 13: s.out @= s.cnt + s.k + 13
      if s.sel == 14: s.out @= s.cnt + s.k + 14
      if s.sel == 15: s.out @= s.cnt + s.k + 15
      if s.sel == 16: s.out @= s.cnt + s.k + 16
      if s.sel == 17: s.out @= s.cnt + s.k + 17
      if s.sel == 18: s.out @= s.cnt + s.k + 18
      if s.sel == 19: s.out @= s.cnt + s.k + 19
      if s.sel == 20: s.out @= s.cnt + s.k + 20
      if s.sel == 21: s.out @= s.cnt + s.k + 21
    @update
    def up_o2(): s.o2 @= s.out + 1
''',
  'hand:ConstParts': '''
    s.in_ = InPort(Bits8); s.out = OutPort(Bits8); s.o2 = OutPort(Bits8); s.w = Wire(Bits8); s.p = Wire(P)
    s.w[4:8] //= 0xA
    s.p.a //= 3
    @update
    def up_lo(): s.w[0:4] @= s.in_[0:4]
    @update
    def up_pb(): s.p.b @= s.in_[4:8]
    @update
    def up_rd(): s.out @= s.w ^ concat(s.p.a, s.p.b)
    @update
    def up_rd2(): s.o2 @= zext(s.w[4:8], 8) + zext(s.p.a, 8)
''',
  'hand:ConstraintOnNet': None,
  'hand:TwoConstrainers': None,
  'hand:NameClash': None,   # built below: many blocks whose names are prefixes of each other
}


def _nameclash():
  src = '''
class StageA(Component):
  def construct(s):
    s.in_ = InPort(Bits8); s.out = OutPort(Bits8)
    @update
    def up1(): s.out @= s.in_ + 1
class StageB(Component):
  def construct(s):
    s.in_ = InPort(Bits8); s.out = OutPort(Bits8)
    @update
    def up(): s.out @= (s.in_ << 1) ^ s.in_
class StageC(Component):
  def construct(s):
    s.in_ = InPort(Bits8); s.out = OutPort(Bits8)
    @update
    def up11(): s.out @= s.in_ - 3
class HandNameClash(Component):
  def construct(s):
    s.in_ = InPort(Bits8); s.out = OutPort(Bits8)
    s.a = [StageA() for _ in range(5)]; s.b = [StageB() for _ in range(7)]; s.c = [StageC() for _ in range(2)]
    ch = s.a + s.b + s.c
    ch[0].in_ //= s.in_
    for i in range(1, len(ch)): ch[i].in_ //= ch[i-1].out
    s.out //= ch[-1].out
'''
  return src


def _extra_classes():
  return '''
class Prod(Component):
  def construct(s):
    s.in_ = InPort(Bits8); s.out = OutPort(Bits8)
    @update
    def up_prod(): s.out @= s.in_ + 7
class HandConstraintOnNet(Component):     # an explicit constraint against a signal that is driven by a connection (a net block)
  def construct(s):
    s.in_ = InPort(Bits8); s.x = Wire(Bits16); s.prev = OutPort(Bits8); s.cur = OutPort(Bits8); s.prod = Prod()
    s.prod.in_ //= s.in_
    s.x[0:8] //= s.prod.out
    @update
    def up_hi(): s.x[8:16] @= s.in_
    @update
    def up_sample(): s.prev @= s.x[0:8]
    @update
    def up_cur(): s.cur @= s.x[0:8] + s.x[8:16]
    s.add_constraints( U(up_sample) < WR(s.x[0:8]) )
class CChild(Component):                  # the child constrains readers of its own output ...
  def construct(s):
    s.in_ = InPort(Bits8); s.out = OutPort(Bits8); s.snap = OutPort(Bits8)
    @update
    def up_cout(): s.out @= s.in_ + 1
    @update
    def up_csnap(): s.snap @= s.out
    s.add_constraints( U(up_csnap) < WR(s.out) )
class HandTwoConstrainers(Component):     # ... and so does the parent, on the very same signal
  def construct(s):
    s.in_ = InPort(Bits8); s.prev = OutPort(Bits8); s.snap = OutPort(Bits8); s.cur = OutPort(Bits8); s.c = CChild()
    s.c.in_ //= s.in_
    s.snap //= s.c.snap
    @update
    def up_prev(): s.prev @= s.c.out
    @update
    def up_cur(): s.cur @= s.c.out + 1
    s.add_constraints( U(up_prev) < WR(s.c.out) )
'''


# designs whose explicit RD/WR constraints deliberately INVERT a write-before-read pair (a block samples the value of the
# previous pass): they have no fixed point by design and belong to C02 only, not to C01
INVERTING = {'hand:ConstraintOnNet', 'hand:TwoConstrainers'}

_mod = None
_names = None


def _build():
  global _mod, _names
  if _mod is not None: return
  gen = _gen()
  src = HDR
  names = {}
  for i, (mode, wt, rt_, body) in enumerate(gen):
    src += f"\nclass Shape{i}(Component):\n  def construct(s):{body}\n"
    names[f"shape:{i}"] = (f"Shape{i}", f"{mode}: W {wt} / R {rt_}")
  for k, body in HAND.items():
    cn = 'Hand' + k.split(':')[1]
    if k in ('hand:ConstraintOnNet', 'hand:TwoConstrainers'):
      if 'class Prod(' not in src: src += _extra_classes()
    elif body is None: src += _nameclash()
    else: src += f"\nclass {cn}(Component):\n  def construct(s):{body}\n"
    names[k] = (cn, k)
  d = tempfile.mkdtemp(prefix='schedgen_', dir=os.environ.get('VERIF_SCRATCH') or None)
  fn = os.path.join(d, 'verif_sched_mod.py')
  with open(fn, 'w') as f: f.write(src)
  spec = importlib.util.spec_from_file_location('verif_sched_mod', fn)
  _mod = importlib.util.module_from_spec(spec)
  sys.modules['verif_sched_mod'] = _mod
  spec.loader.exec_module(_mod)
  _names = names


def names():
  _build(); return list(_names)


def get(name):
  _build(); return getattr(_mod, _names[name][0])


def describe(name):
  _build(); return _names[name][1]
