"""Designs with placeholder slices for the state-injection harnesses of C02/C09: after elaboration the
`_dsl.slice` of the two slice signals is overwritten with slice(SymInt lo, SymInt hi)."""
import importlib.util
import os
import sys
import tempfile

SRC = '''from pymtl3 import *
class W2(Component):    # two blocks write two slices
  def construct(s, n=16):
    s.in_ = InPort(n); s.x = Wire(n); s.out = OutPort(n)
    @update
    def upA(): s.x[0:1] @= s.in_[0:1]
    @update
    def upB(): s.x[1:2] @= s.in_[1:2]
    @update
    def upO(): s.out @= s.x
class WR(Component):    # one block writes a slice, another reads a slice
  def construct(s, n=16):
    s.in_ = InPort(n); s.x = Wire(n); s.out = OutPort(1)
    @update
    def upA(): s.x[0:1] @= s.in_[0:1]
    @update
    def upB(): s.out @= s.x[1:2]
class WN(Component):    # a block writes a slice, a net drives another slice
  def construct(s, n=16):
    s.in_ = InPort(n); s.x = Wire(n); s.d = InPort(1); s.out = OutPort(n)
    s.x[1:2] //= s.d
    @update
    def upA(): s.x[0:1] @= s.in_[0:1]
    @update
    def upO(): s.out @= s.x
class W2R(Component):   # a block that only READS a third slice is declared before the two writers
  def construct(s, n=16):
    s.in_ = InPort(n); s.x = Wire(n); s.out = OutPort(n); s.r = OutPort(1)
    @update
    def upR(): s.r @= s.x[2:3]
    @update
    def upA(): s.x[0:1] @= s.in_[0:1]
    @update
    def upB(): s.x[1:2] @= s.in_[1:2]
    @update
    def upO(): s.out @= s.x
class WW(Component):    # a block writes the whole signal, another a slice of it
  def construct(s, n=16):
    s.in_ = InPort(n); s.x = Wire(n); s.out = OutPort(n)
    @update
    def upA(): s.x @= s.in_
    @update
    def upB(): s.x[1:2] @= s.in_[1:2]
    @update
    def upO(): s.out @= s.x
'''
_mod = None


def module():
  global _mod
  if _mod is None:
    d = tempfile.mkdtemp(prefix='inject_', dir=os.environ.get('VERIF_SCRATCH') or None)
    fn = os.path.join(d, 'verif_inject_mod.py')
    with open(fn, 'w') as f: f.write(SRC)
    spec = importlib.util.spec_from_file_location('verif_inject_mod', fn)
    _mod = importlib.util.module_from_spec(spec)
    sys.modules['verif_inject_mod'] = _mod
    spec.loader.exec_module(_mod)
  return _mod
