"""Hand-written translation-validation designs for shapes the repo's Case* corpus does not cross:
multi-dimensional component / port / packed arrays used asymmetrically, nested struct fields, interface arrays."""
from pymtl3 import *


class Inc(Component):
  def construct(s, k=1):
    s.in_ = InPort(8); s.out = OutPort(8)

    @update
    def up_inc():
      s.out @= s.in_ + k


class Grid2D(Component):
  """2-D list of sub-components, ports accessed inside an update block with constant and loop indices"""
  def construct(s):
    s.in_ = InPort(8); s.out = OutPort(8); s.acc = OutPort(8)
    s.b = [[Inc(3 * i + j + 1) for j in range(2)] for i in range(3)]

    @update
    def up_drive():
      for i in range(3):
        for j in range(2):
          s.b[i][j].in_ @= s.in_ + (i + i + i + j)

    @update
    def up_collect():
      s.out @= s.b[2][1].out
      s.acc @= s.b[0][1].out ^ s.b[2][0].out


class Grid2DConnect(Component):
  """2-D list of sub-components wired structurally"""
  def construct(s):
    s.in_ = InPort(8); s.out = [OutPort(8) for _ in range(6)]
    s.b = [[Inc(2 * i + j) for j in range(2)] for i in range(3)]
    for i in range(3):
      for j in range(2):
        s.b[i][j].in_ //= s.in_
        s.out[2 * i + j] //= s.b[i][j].out


class PortArray2D(Component):
  """2-D unpacked port arrays used asymmetrically (a transposition must show)"""
  def construct(s):
    s.in_ = [[InPort(8) for _ in range(2)] for _ in range(3)]
    s.out = [[OutPort(8) for _ in range(3)] for _ in range(2)]
    s.corner = OutPort(8)

    @update
    def up_t():
      for i in range(3):
        for j in range(2):
          s.out[j][i] @= s.in_[i][j] + 1
      s.corner @= s.in_[2][0] - s.in_[0][1]


class PortArray2DConnect(Component):
  def construct(s):
    s.in_ = [[InPort(8) for _ in range(2)] for _ in range(3)]
    s.out = [[OutPort(8) for _ in range(2)] for _ in range(3)]
    for i in range(3):
      for j in range(2):
        s.out[i][j] //= s.in_[2 - i][j]


@bitstruct
class Arr2D:
  hdr: Bits4
  arr: [[Bits8] * 3] * 2
  tl: Bits2


class StructArr2D(Component):
  """struct port with a 2-D packed array field"""
  def construct(s):
    s.in_ = InPort(Arr2D); s.out = OutPort(Arr2D); s.pick = OutPort(8)
    s.out //= s.in_

    @update
    def up_pick():
      s.pick @= s.in_.arr[1][2] ^ s.in_.arr[0][1]


class StructArr2DBehav(Component):
  def construct(s):
    s.in_ = InPort(Arr2D); s.out = OutPort(Arr2D)

    @update
    def up_copy():
      s.out.hdr @= s.in_.hdr + 1
      s.out.tl @= s.in_.tl
      for i in range(2):
        for j in range(3):
          s.out.arr[i][j] @= s.in_.arr[1 - i][j]


@bitstruct
class Inner:
  a: Bits3
  b: Bits5


@bitstruct
class Outer:
  x: Inner
  y: Bits8
  z: [Inner] * 2


class NestedStruct(Component):
  def construct(s):
    s.in_ = InPort(Outer); s.out = OutPort(Outer); s.f = OutPort(5)
    s.w = Wire(Outer)
    s.w //= s.in_

    @update
    def up_ns():
      s.out @= s.w
      s.f @= s.w.z[1].b + s.w.x.b


class SextSliceHi(Component):
  def construct(s):
    s.inst = InPort(32); s.imm = OutPort(32); s.imm2 = OutPort(16)

    @update
    def up_imm():
      s.imm @= sext(s.inst[20:32], 32)
      s.imm2 @= sext(s.inst[7:12], 16)


class DescLoop(Component):
  """descending loops whose index is used as a value (shift amount, comparison, arithmetic)"""
  def construct(s):
    s.sel = InPort(3); s.in_ = InPort(8); s.out = OutPort(8); s.hit = OutPort(8); s.sum = OutPort(8)

    @update
    def up_desc():
      s.out @= 0
      s.hit @= 0
      s.sum @= 0
      for i in range(6, 0, -2):
        if s.sel == i:
          s.out @= s.in_ << i
        if i == 2:
          s.hit @= s.hit + 1
        s.sum @= s.sum + i


class MemIfcArr(Component):
  """list of val/rdy-like interfaces"""
  def construct(s):
    from pymtl3.stdlib.ifcs import RecvIfcRTL, SendIfcRTL
    s.recv = [RecvIfcRTL(Bits8) for _ in range(2)]
    s.send = [SendIfcRTL(Bits8) for _ in range(2)]
    for i in range(2):
      s.send[i].msg //= s.recv[1 - i].msg
      s.send[i].en //= s.recv[1 - i].en
      s.recv[1 - i].rdy //= s.send[i].rdy


class SeqTemps(Component):
  """temporaries inside update_ff: single, chained and re-used"""
  def construct(s):
    s.in_ = InPort(8); s.out = OutPort(8); s.out2 = OutPort(8); s.out3 = OutPort(8)
    @update_ff
    def ff_tmp():
      a = b = s.in_ + 1
      s.out <<= a + b
      t = s.in_ ^ 0x0f
      u = t + a
      s.out2 <<= u
      if s.reset: s.out3 <<= 0
      else:       s.out3 <<= s.out3 + t


class CombTemps(Component):
  def construct(s):
    s.in_ = InPort(8); s.sel = InPort(); s.out = OutPort(8); s.out2 = OutPort(8)
    @update
    def up_tmp():
      a = b = s.in_ + 1
      c = a & b
      if s.sel: c = c + 3
      s.out @= c
      s.out2 @= a ^ c


@bitstruct
class Tail:
  a: Bits2
  b: Inner
  c: Bits4
  d: [Bits3] * 2
  e: Bits1


class NestedStructIn(Component):
  """struct-typed INPUT only (nested struct with two fields in the middle, fields and a list after it); outputs are plain vectors,
  some read in a block and some connected"""
  def construct(s):
    s.in_ = InPort(Tail); s.oa = OutPort(2); s.ox = OutPort(3); s.oy = OutPort(5); s.oc = OutPort(4); s.od = OutPort(3); s.oe = OutPort(1); s.ob = OutPort(Inner)
    s.oc //= s.in_.c
    s.oe //= s.in_.e
    @update
    def up_nsi():
      s.oa @= s.in_.a
      s.ox @= s.in_.b.a
      s.oy @= s.in_.b.b
      s.od @= s.in_.d[1] ^ s.in_.d[0]
      s.ob @= s.in_.b


class ArrIfc(Interface):
  def construct(s):
    s.msg = [InPort(8) for _ in range(2)]
    s.rdy = [OutPort(1) for _ in range(2)]
    s.en = InPort(1)


class IfcPortArray(Component):
  """a single (non-array) interface that contains arrays of ports"""
  def construct(s):
    s.ifc = ArrIfc()
    s.sum = OutPort(8)
    @update
    def up_ipa():
      s.sum @= s.ifc.msg[0] + s.ifc.msg[1]
      for i in range(2):
        s.ifc.rdy[i] @= s.ifc.en & s.ifc.msg[i][0]


class IfcPortArrayConnect(Component):
  def construct(s):
    s.ifc = ArrIfc()
    s.o = [OutPort(8) for _ in range(2)]
    for i in range(2):
      s.o[i] //= s.ifc.msg[1 - i]
      s.ifc.rdy[i] //= s.ifc.en


@bitstruct
class Tail2:
  a: Bits2
  b: Inner
  c: Bits4
  e: Bits1


class StructInstBehav(Component):
  """struct values built inside a block (flat and nested constructor calls)"""
  def construct(s):
    s.a = InPort(8); s.b = InPort(8); s.out = OutPort(Inner); s.o2 = OutPort(8); s.w = Wire(Tail2)
    @update
    def up_si():
      s.out @= Inner(s.a[0:3], s.b[3:8])
      s.w @= Tail2(s.a[6:8], Inner(s.b[0:3], s.a[0:5]), s.b[4:8], s.a[7])
    @update
    def up_si2():
      s.o2 @= concat(s.w.b.a, s.w.b.b) ^ zext(s.w.a, 8) ^ zext(s.w.c, 8) ^ sext(s.w.e, 8)


class InnerIfc(Interface):
  def construct(s):
    s.msg = InPort(8); s.rdy = OutPort(1)


class OuterIfc(Interface):
  def construct(s):
    s.inner = [InnerIfc() for _ in range(2)]
    s.en = InPort(1)


class IfcNested(Component):
  """list of interfaces, each holding a list of interfaces"""
  def construct(s):
    s.ifc = [OuterIfc() for _ in range(2)]
    s.sum = OutPort(8)
    @update
    def up_in():
      s.sum @= s.ifc[0].inner[1].msg + s.ifc[1].inner[0].msg
      for i in range(2):
        for j in range(2):
          s.ifc[i].inner[j].rdy @= s.ifc[i].en & s.ifc[1 - i].inner[j].msg[0]


class SubcompBehav(Component):
  """a parent block drives and reads the ports of a list of children (constant, loop and computed indices)"""
  def construct(s):
    s.in_ = InPort(8); s.sel = InPort(2); s.out = OutPort(8); s.pick = OutPort(8)
    s.c = [Inc(i + 2) for i in range(4)]
    @update
    def up_sb_drive():
      s.c[0].in_ @= s.in_
      for i in range(1, 4):
        s.c[i].in_ @= s.c[i - 1].out ^ i
    @update
    def up_sb_read():
      s.out @= s.c[3].out + s.c[1].out
      s.pick @= s.c[s.sel].out


class ElifChain(Component):
  def construct(s):
    s.a = InPort(8); s.b = InPort(8); s.m = InPort(3); s.o1 = OutPort(8); s.o2 = OutPort(8); s.f = OutPort(1)
    @update
    def up_elif():
      s.o2 @= 0
      s.f @= 0
      if s.m == 0:   s.o1 @= s.a + s.b
      elif s.m == 1: s.o1 @= s.a - s.b
      elif (s.m == 2) | (s.m == 5):
        s.o1 @= s.a & s.b
        if s.a > s.b: s.o2 @= s.a
        else:         s.o2 @= s.b
      elif s.m[2] & ~s.m[0]:
        s.o1 @= s.a ^ s.b
        s.f @= s.a[7] ^ s.b[0]
      else:
        s.o1 @= 0xA5
        if s.a == s.b: s.f @= 1


class VarIdx2D(Component):
  """2-D port array read with variable indices; 1-D wire array written with a variable index"""
  def construct(s):
    s.arr = [[InPort(4) for _ in range(2)] for _ in range(4)]
    s.i = InPort(2); s.j = InPort(1); s.a = InPort(4); s.out = OutPort(4); s.o2 = OutPort(4)
    s.w = [Wire(4) for _ in range(4)]
    @update
    def up_vi():
      s.out @= s.arr[s.i][s.j]
      for k in range(4): s.w[k] @= s.arr[k][1]
      s.w[s.i] @= s.a
    @update
    def up_vi2():
      s.o2 @= s.w[0] ^ s.w[1] ^ s.w[2] ^ s.w[3]


class NestedLoops(Component):
  def construct(s):
    s.a = InPort(8); s.b = InPort(8); s.out = OutPort(8); s.cnt = OutPort(8)
    @update
    def up_nl():
      s.out @= 0
      s.cnt @= 0
      for i in range(2):
        for j in range(4):
          s.out[i * 4 + j] @= s.a[j * 2 + i] ^ s.b[7 - (i * 4 + j)]
          if s.a[i] & s.b[j]:
            s.cnt @= s.cnt + (i + j + 1)


class IfcArrChild(Component):
  """child with lists of mixed-direction (val/rdy style) interfaces"""
  def construct(s):
    from pymtl3.stdlib.ifcs import RecvIfcRTL, SendIfcRTL
    s.recv = [RecvIfcRTL(Bits8) for _ in range(2)]
    s.send = [SendIfcRTL(Bits8) for _ in range(2)]
    @update
    def up_iac():
      for i in range(2):
        s.send[i].msg @= s.recv[1 - i].msg + (i + 1)
        s.send[i].en @= s.recv[1 - i].en & s.send[i].rdy
        s.recv[1 - i].rdy @= s.send[i].rdy


class SubIfcArr(Component):
  """a NON-top component with interface arrays of mixed directions, wired to the parent's interfaces and to a sibling"""
  def construct(s):
    from pymtl3.stdlib.ifcs import RecvIfcRTL, SendIfcRTL
    s.recv = [RecvIfcRTL(Bits8) for _ in range(2)]
    s.send = [SendIfcRTL(Bits8) for _ in range(2)]
    s.a = IfcArrChild(); s.b = IfcArrChild()
    for i in range(2):
      s.a.recv[i] //= s.recv[i]
      s.b.recv[i] //= s.a.send[i]
      s.send[i] //= s.b.send[i]


@bitstruct
class InnerY:
  y: Bits4
  z: Bits2


@bitstruct
class PWrap:
  inner: InnerY
  k: Bits3


class StageP(Component):
  def construct(s):
    s.in_ = InPort(8); s.p = OutPort(PWrap)
    @update
    def up_sp(): s.p @= PWrap(InnerY(s.in_[0:4], s.in_[4:6]), s.in_[5:8])


class DeepStructArr(Component):
  """a list of children with a struct-typed port; the parent connects fields two levels deep of individual elements"""
  def construct(s):
    s.ins = [InPort(8) for _ in range(3)]; s.y = OutPort(4); s.z = OutPort(2); s.k = OutPort(3); s.whole = OutPort(InnerY)
    s.stage = [StageP() for _ in range(3)]
    for i in range(3): s.stage[i].in_ //= s.ins[i]
    s.y //= s.stage[1].p.inner.y
    s.z //= s.stage[2].p.inner.z
    s.k //= s.stage[0].p.k
    s.whole //= s.stage[2].p.inner


class MemberArrIfc(Interface):
  """an interface whose members have array dimensions of their own (port arrays)"""
  def construct(s):
    s.d = [InPort(4) for _ in range(3)]
    s.e = [[InPort(2) for _ in range(2)] for _ in range(3)]
    s.q = OutPort(4)


class MemberArrChild(Component):
  def construct(s):
    s.ifc = [MemberArrIfc() for _ in range(2)]          # 2 interfaces x 3-element members: the two sizes differ
    s.out = OutPort(4)
    @update
    def up_mac():
      s.out @= s.ifc[1].d[2] ^ s.ifc[0].d[1] ^ zext(s.ifc[1].e[2][0], 4) ^ zext(s.ifc[0].e[1][1], 4)
      for i in range(2):
        s.ifc[i].q @= s.ifc[i].d[2 - i] + s.ifc[1 - i].d[0] + zext(s.ifc[i].e[2][1], 4)


class SubIfcMemberArr(Component):
  """a sub-component with an ARRAY of interfaces whose members are arrays too (sizes 2, 3 and 3x2).  (A struct member
  with a packed array would put the design into the listed Yosys two-driver class, so the members are port arrays.)"""
  def construct(s):
    s.d = [[InPort(4) for _ in range(3)] for _ in range(2)]; s.e = [[[InPort(2) for _ in range(2)] for _ in range(3)] for _ in range(2)]
    s.out = OutPort(4); s.q = [OutPort(4) for _ in range(2)]
    s.sub = MemberArrChild()
    for i in range(2):
      s.q[i] //= s.sub.ifc[i].q
      for j in range(3):
        s.sub.ifc[i].d[j] //= s.d[i][j]
        for k in range(2): s.sub.ifc[i].e[j][k] //= s.e[i][j][k]
    s.out //= s.sub.out


def _arr2d_const():
  return Arr2D(0x9, [[b8(0x11), b8(0x12), b8(0x13)], [b8(0x21), b8(0x22), b8(0x23)]], 0x2)


@bitstruct
class Arr3D:
  cube: [[[Bits4] * 2] * 3] * 2
  z: Bits3


class ConstStruct2D(Component):
  """constant structs with multi-dimensional packed array fields (all elements distinct): tied to a port, and used as a
  free variable of a block"""
  def construct(s):
    s.in_ = InPort(8); s.out = OutPort(Arr2D); s.o2 = OutPort(8); s.o3 = OutPort(Arr3D)
    s.out //= _arr2d_const()
    s.o3 //= Arr3D([[[b4(1), b4(2)], [b4(3), b4(4)], [b4(5), b4(6)]], [[b4(7), b4(8)], [b4(9), b4(10)], [b4(11), b4(12)]]], 0x5)
    K = _arr2d_const()
    @update
    def up_cs():
      s.o2 @= s.in_ ^ K.arr[1][0] ^ K.arr[0][2]


DESIGNS = {
  'x:ConstStruct2D': ConstStruct2D, 'x:SubIfcMemberArr': SubIfcMemberArr,
  'x:DeepStructArr': DeepStructArr,
  'x:SubIfcArr': SubIfcArr,
  'x:StructInstBehav': StructInstBehav, 'x:IfcNested': IfcNested, 'x:SubcompBehav': SubcompBehav, 'x:ElifChain': ElifChain,
  'x:VarIdx2D': VarIdx2D, 'x:NestedLoops': NestedLoops,
  'x:NestedStructIn': NestedStructIn, 'x:IfcPortArray': IfcPortArray, 'x:IfcPortArrayConnect': IfcPortArrayConnect,
  'x:SeqTemps': SeqTemps, 'x:CombTemps': CombTemps,
  'x:Grid2D': Grid2D, 'x:Grid2DConnect': Grid2DConnect, 'x:PortArray2D': PortArray2D, 'x:PortArray2DConnect': PortArray2DConnect,
  'x:StructArr2D': StructArr2D, 'x:StructArr2DBehav': StructArr2DBehav, 'x:NestedStruct': NestedStruct, 'x:SextSliceHi': SextSliceHi,
  'x:DescLoop': DescLoop, 'x:MemIfcArr': MemIfcArr,
}
