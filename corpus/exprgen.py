"""Expression-shape generator for C03/C12/C10: one-block components crossing operators x operand kinds x widths.
Deterministic: 'gen:<i>' always names the same design.  The module source is written to a scratch directory at
run time (pymtl3 needs real source files for its AST passes)."""
import importlib.util
import itertools
import os
import sys
import tempfile

HDR = "from pymtl3 import *\n@bitstruct\nclass GP:\n  x: Bits8\n  y: Bits4\n"


def exprs(W):
  M = (1 << W) - 1
  lits = sorted(set([0, 1, M, (M >> 1) + 1 if W > 1 else 1, 5 & M]))
  E = []
  bin2 = ['+', '-', '&', '|', '^', '*']
  for op in bin2 + ['<<', '>>']:
    E.append(f"s.a {op} s.b")
    for L in lits:
      E.append(f"s.a {op} {L}")
      if op not in ('<<', '>>'): E.append(f"{L} {op} s.a")
  for op1, op2 in itertools.product(['+', '-', '&', '^'], ['+', '-', '|', '<<', '>>']):
    E.append(f"(s.a {op1} s.b) {op2} s.a")
    E.append(f"(s.a {op1} {lits[-1]}) {op2} s.b")
    E.append(f"s.a {op2} (s.b {op1} 1)")
  for cmp_ in ['==', '!=', '<', '<=', '>', '>=']:
    E.append(f"zext(s.a {cmp_} s.b, {W})" if W > 1 else f"s.a {cmp_} s.b")
    E.append(f"zext(s.a {cmp_} {lits[-2]}, {W})" if W > 1 else f"s.a {cmp_} {lits[-2]}")
    E.append(f"s.a if s.a {cmp_} s.b else s.b")
    E.append(f"(s.a + 1) if (s.a + s.b) {cmp_} s.a else 0")
  if W > 2:
    E += [f"s.a & Bits{W}(~3)", f"s.a | Bits{W}(~0)", f"s.a + Bits{W}(-1)", f"s.a ^ Bits{W}(-2)", f"Bits{W}(~1) & s.b", f"s.a & ~3" if W <= 2 else f"s.a & Bits{W}(~2)"]
  E += [f"~s.a", f"~(s.a + s.b)", f"~s.a + 1", f"s.a if s.c else {M}", f"({M} if s.c else 0) & s.a",
        f"s.a + (1 if s.c else 0)", f"(s.a >> 1) + (s.b >> 1)", f"(s.a + s.b) >> 1", f"(s.a << 1) >> 1"]
  if W > 1:
    h = W // 2
    ib = max(1, (W - 1).bit_length())
    E += [f"zext(s.a[0:{h}], {W}) + s.b", f"sext(s.a[0:{h}], {W}) + s.b", f"sext(s.a[{h}:{W}], {W})", f"zext(trunc(s.a, {h}) + trunc(s.b, {h}), {W})",
          f"concat(s.a[0:{h}], s.b[{h}:{W}])", f"concat(s.a[{h}:{W}], s.b[0:{h}]) + 1", f"zext(reduce_and(s.a) | reduce_or(s.b) ^ reduce_xor(s.a), {W})",
          f"zext(s.a[s.b[0:{ib}]], {W})" if (1 << ib) == W else f"zext(s.a[0], {W})",
          f"sext(s.a[0], {W})", f"zext(s.a[{W-1}], {W}) + s.b", f"Bits{W}(3) + s.a" if W >= 2 else "s.a",
          f"zext(s.a[0:{h}] + s.b[0:{h}], {W})", f"zext(s.a[0:{h}] * s.b[0:{h}], {W})", f"s.a - zext(s.b[0:{h}], {W})",
          # extension / reduction of compound operands, part-selects that do not start at bit 0
          f"trunc(sext(s.a + s.b, {2*W}), {W})", f"trunc(sext(s.a & s.b, {2*W}) >> {W}, {W})", f"trunc(zext(s.a - s.b, {2*W}) >> {W}, {W})",
          f"zext(reduce_or(s.a & s.b), {W})", f"zext(reduce_and(s.a | s.b), {W})", f"zext(reduce_xor(s.a ^ s.b), {W})",
          f"zext(reduce_or(s.a + s.b), {W})", f"zext(reduce_and(~s.a), {W})",
          f"sext(s.a[1:{W}], {W})", f"sext(s.a[{h}:{W}], {W}) + sext(s.b[1:{h+1}], {W})" if h >= 1 and W > 2 else f"sext(s.a[1:{W}], {W})",
          f"zext(s.a[1:{W}], {W}) ^ s.b", f"sext(concat(s.a[{h}:{W}], s.b[0:{h}])[1:{W}], {W})",
          f"sext(s.a if s.c else s.b, {2*W})[{h}:{W+h}]", f"zext(s.a, {2*W})[{h}:{W+h}]"]
  return E


def loops(W):
  L = []
  L.append(f"for i in range({W}):\n        s.out[i] @= s.a[i] ^ s.b[{W-1}-i]")
  L.append(f"for i in range({W}):\n        s.out[i] @= s.a[i] & (s.b[i] | s.c)")
  if W > 2:
    L.append(f"s.out @= 0\n      for i in range({W-1}):\n        s.out[i+1] @= s.a[i]")
    L.append(f"s.out @= 0\n      for i in range(1, {W}):\n        s.out[i-1] @= s.a[i] | s.b[i]")
    L.append(f"s.out @= s.a\n      for i in range({W}):\n        if i + 1 == {W}:\n          s.out[i] @= s.b[0]")
    L.append(f"s.out @= s.a\n      for i in range({W}):\n        if i == {W-1}:\n          s.out[0] @= s.b[i]")
    L.append(f"s.out @= 0\n      for i in range({W}):\n        if s.a[i]:\n          s.out @= i")
    L.append(f"s.out @= 0\n      for i in range({W}):\n        s.out @= s.out + zext(s.a[i], {W})")
    L.append(f"s.out @= 0\n      for i in range(0, {W}, 2):\n        s.out[i] @= s.a[i]")
    L.append(f"s.out @= 0\n      for i in range({W-1}, -1, -1):\n        s.out[i] @= s.a[{W-1}-i]")
    L.append(f"s.out @= s.b\n      for i in range({min(W, 5)}):\n        if s.a == i:\n          s.out @= i + 1")
    L.append(f"t = s.a + s.b\n      s.out @= t & s.a")
    L.append(f"t = s.a[0:{W//2}]\n      s.out @= zext(t, {W}) + s.b")
    L.append(f"t = 3\n      s.out @= s.a + t")
    # descending and strided loops whose index is used as a value
    L.append(f"s.out @= 0\n      for i in range({W-1}, 0, -2):\n        if s.a == i:\n          s.out @= s.b << i")
    L.append(f"s.out @= 0\n      for i in range({W-1}, 0, -1):\n        if s.b[i]:\n          s.out @= s.a + i")
    L.append(f"s.out @= 0\n      for i in range(1, {W}, 2):\n        s.out @= s.out | (s.a >> i)")
    L.append(f"s.out @= 0\n      for i in range({W-1}, -1, -3):\n        s.out[i] @= s.a[i] & s.b[{W-1}-i]")
  return L


EXTRA = [
  # unpacked arrays of Bits and their elements under extension / reduction; struct fields
  ('arr', 8, "s.out @= sext(s.arr[1], 8)", "s.arr = [InPort(Bits4) for _ in range(3)]"),
  ('arr', 8, "s.out @= zext(s.arr[2], 8) + sext(s.arr[0], 8)", "s.arr = [InPort(Bits4) for _ in range(3)]"),
  ('arr', 8, "s.out @= zext(reduce_or(s.arr[1]), 8)", "s.arr = [InPort(Bits4) for _ in range(3)]"),
  ('arr', 8, "s.out @= zext(s.arr[s.a[0:2]], 8)", "s.arr = [InPort(Bits4) for _ in range(4)]"),
  ('arr', 8, "s.out @= sext(s.arr[s.a[0:1]], 8)", "s.arr = [InPort(Bits4) for _ in range(2)]"),
  ('arr', 8, "for i in range(3):\n        s.w[i] @= s.arr[2-i]\n      s.out @= concat(s.w[0], s.w[2])", "s.arr = [InPort(Bits4) for _ in range(3)]\n    s.w = [Wire(Bits4) for _ in range(3)]"),
  # a conditional expression under a same-width cast inside a binary operator; struct fields under trunc/extension;
  # constants held in component attributes (negative, boundary)
  ('cast', 8, "s.out @= Bits8(s.a if s.c else s.b) + s.b", ""),
  ('cast', 8, "s.out @= s.a & Bits8(s.b if s.c else 15)", ""),
  ('cast', 8, "s.out @= zext(Bits4(s.a[0:4] if s.c else s.b[4:8]), 8) ^ s.a", ""),
  ('cast', 8, "s.out @= (s.a if s.c else s.b) + (s.b if s.a[0] else s.a)", ""),
  ('field', 8, "s.out @= zext(trunc(s.st.x, 4), 8) + s.a", "s.st = InPort(GP)"),
  ('field', 8, "s.out @= sext(s.st.y, 8) ^ s.st.x", "s.st = InPort(GP)"),
  ('field', 8, "s.out @= zext(s.st.y[1:3], 8) + zext(reduce_or(s.st.x), 8)", "s.st = InPort(GP)"),
  ('field', 8, "s.out @= concat(s.st.y, trunc(s.st.x, 4))", "s.st = InPort(GP)"),
  ('attr', 8, "s.out @= s.K", "s.K = -3"),
  ('attr', 8, "s.out @= s.K", "s.K = 255"),
  ('attr', 8, "s.out @= s.a + Bits8(s.K)", "s.K = -128"),
  ('attr', 8, "s.out @= s.a & s.KB", "s.KB = Bits8(0xf0)"),
  # conditionals in condition position; temporaries assigned twice (typed, then a bare literal / loop index)
  ('cond', 8, "s.out @= s.a if (s.c if s.a[0] else s.b[0]) else s.b", ""),
  ('cond', 8, "s.out @= (s.a if s.c else s.b) if (s.b[1] if s.c else s.a[7]) else (s.b if s.a[0] else 3)", ""),
  ('cond', 8, "s.out @= s.a + 1 if ((s.a > s.b) if s.c else (s.a == s.b)) else s.b - 1", ""),
  ('tmp2', 8, "acc = s.a + s.b\n      if s.c:\n        acc = 0\n      s.out @= acc", ""),
  ('tmp2', 8, "acc = s.a + s.b\n      if s.c:\n        acc = Bits8(0)\n      s.out @= acc", ""),
  ('tmp2', 8, "acc = s.a\n      for i in range(3):\n        acc = acc + i\n      s.out @= acc", ""),
  ('tmp2', 8, "acc = s.a[0:4]\n      acc = s.b[0:4]\n      s.out @= zext(acc, 8)", ""),
]


def designs():
  out = []
  for W in (1, 4, 8, 33):
    for e in exprs(W): out.append((W, f"s.out @= {e}", ''))
    for l in (loops(6) if W > 8 else loops(W)): out.append((6 if W > 8 else W, l, ''))
  for kind, W, body, decl in EXTRA: out.append((W, body, decl))
  return out


_mod = None


def module():
  global _mod
  if _mod is not None: return _mod
  src = HDR
  for i, (W, body, decl) in enumerate(designs()):
    src += f'''
class X{i}(Component):
  def construct(s):
    s.a = InPort(Bits{W}); s.b = InPort(Bits{W}); s.c = InPort(Bits1); s.out = OutPort(Bits{W})
    {decl or 'pass'}
    @update
    def up():
      {body}
'''
  d = tempfile.mkdtemp(prefix='exprgen_', dir=os.environ.get('VERIF_SCRATCH') or None)
  fn = os.path.join(d, 'verif_exprgen_mod.py')
  with open(fn, 'w') as f: f.write(src)
  spec = importlib.util.spec_from_file_location('verif_exprgen_mod', fn)
  _mod = importlib.util.module_from_spec(spec)
  sys.modules['verif_exprgen_mod'] = _mod
  spec.loader.exec_module(_mod)
  return _mod


def names():
  return [f"gen:{i}" for i in range(len(designs()))]


def get(name):
  i = int(name.split(':')[1])
  return getattr(module(), f"X{i}")


def describe(name):
  i = int(name.split(':')[1])
  W, body, decl = designs()[i]
  return f"W={W}: {body}"
