"""Cycle corpus for C11: false loops (through disjoint slices / struct fields / list elements), convergent and
divergent true loops, loops spanning components, a large cyclic group; each false loop has an acyclic twin."""
import importlib.util
import os
import sys
import tempfile

SRC = '''from pymtl3 import *
@bitstruct
class P:
  a: Bits4
  b: Bits4
@bitstruct
class Pair8:
  a: Bits8
  b: Bits8

class L0(Component):   # false loop through disjoint slices of two wires (not even a block-level cycle)
  def construct(s):
    s.in_ = InPort(Bits4); s.out = OutPort(Bits8); s.w = Wire(Bits8); s.v = Wire(Bits8)
    @update
    def upA(): s.w[0:4] @= s.in_ + s.v[4:8]
    @update
    def upB(): s.v[0:4] @= s.w[0:4] ^ 3
    @update
    def upC(): s.v[4:8] @= s.in_ & 5
    @update
    def upD(): s.w[4:8] @= s.v[0:4]
    @update
    def upO(): s.out @= s.w
class L1(Component):   # false loop through struct fields
  def construct(s):
    s.in_ = InPort(Bits4); s.out = OutPort(Bits8); s.p = Wire(P); s.q = Wire(P)
    @update
    def upA(): s.p.a @= s.in_ + s.q.b
    @update
    def upB(): s.q.a @= s.p.a ^ 3
    @update
    def upC(): s.q.b @= s.in_ & 5
    @update
    def upD(): s.p.b @= s.q.a
    @update
    def upO(): s.out @= concat(s.p.a, s.p.b)
class L2(Component):   # true convergent loop (monotone or)
  def construct(s):
    s.in_ = InPort(Bits4); s.out = OutPort(Bits4); s.a = Wire(Bits4); s.b = Wire(Bits4)
    @update
    def upA(): s.a @= s.b | s.in_
    @update
    def upB(): s.b @= s.a & 6
    @update
    def upO(): s.out @= s.a
class L3(Component):   # diverges for some inputs
  def construct(s):
    s.in_ = InPort(Bits2); s.out = OutPort(Bits2); s.a = Wire(Bits2); s.b = Wire(Bits2)
    @update
    def upA(): s.a @= s.b + s.in_
    @update
    def upB(): s.b @= s.a
    @update
    def upO(): s.out @= s.a
class L4(Component):   # only a slice carries the dependency, the rest of the wire changes too
  def construct(s):
    s.in_ = InPort(Bits4); s.out = OutPort(Bits8); s.w = Wire(Bits8); s.x = Wire(Bits4)
    @update
    def upA():
      s.w[0:4] @= s.x | s.in_
      s.w[4:8] @= s.x + 1
    @update
    def upB(): s.x @= s.w[0:4] & 3
    @update
    def upO(): s.out @= s.w
class L5(Component):   # whole struct written in one block, a field read in the other
  def construct(s):
    s.in_ = InPort(Bits4); s.out = OutPort(Bits8); s.p = Wire(P); s.x = Wire(Bits4)
    @update
    def upA(): s.p @= P(s.x | s.in_, s.x + 1)
    @update
    def upB(): s.x @= s.p.a & 3
    @update
    def upO(): s.out @= concat(s.p.a, s.p.b)
class L6(Component):   # block-level cycle through two FIELDS of one struct wire (false loop), with an entry block
  def construct(s):
    s.in_ = InPort(8); s.sel = InPort(8); s.k = Wire(8); s.st = Wire(Pair8); s.w = OutPort(8)
    @update
    def up_src(): s.k @= s.in_
    @update
    def blk1():
      s.st.a @= s.k
      s.w    @= s.st.b
    @update
    def blk2(): s.st.b @= s.st.a + s.sel
class L6twin(Component):
  def construct(s):
    s.in_ = InPort(8); s.sel = InPort(8); s.w = OutPort(8)
    @update
    def up(): s.w @= s.in_ + s.sel
class L7(Component):   # one block writes a slice, one reads exactly that slice, a third reads the whole wire and feeds back
  def construct(s):
    s.in_ = InPort(4); s.w = Wire(8); s.q = Wire(4); s.y = Wire(8); s.z = OutPort(8)
    @update
    def upW():
      s.w[0:4] @= s.in_ + 1
      s.w[4:8] @= s.y[0:4]
    @update
    def upQ(): s.q @= s.w[0:4]
    @update
    def upY(): s.y @= zext(s.q, 8) + 1
    @update
    def upZ(): s.z @= s.w
class L7twin(Component):
  def construct(s):
    s.in_ = InPort(4); s.z = OutPort(8)
    @update
    def up():
      s.z[0:4] @= s.in_ + 1
      s.z[4:8] @= s.in_ + 2
class L10(Component):  # a written slice is read at exactly that slice AND through the whole wire; the whole-wire reader feeds back
  def construct(s):
    s.in_ = InPort(4); s.w = Wire(8); s.y = Wire(8); s.q = OutPort(4); s.z = OutPort(8)
    @update
    def blk0(): s.w[4:8] @= 0
    @update
    def blk1():
      s.w[0:4] @= s.in_
      s.z      @= s.y
    @update
    def blk2(): s.q @= s.w[0:4]
    @update
    def blk3(): s.y @= s.w + 1
class L10twin(Component):
  def construct(s):
    s.in_ = InPort(4); s.q = OutPort(4); s.z = OutPort(8)
    @update
    def up():
      s.q @= s.in_
      s.z @= zext(s.in_, 8) + 1
class L11(Component):  # same through struct: field written, read as field and through the whole struct
  def construct(s):
    s.in_ = InPort(4); s.p = Wire(P); s.y = Wire(8); s.q = OutPort(4); s.z = OutPort(8)
    @update
    def blk1():
      s.p.a @= s.in_
      s.z   @= s.y
    @update
    def blk2(): s.q @= s.p.a
    @update
    def blk3(): s.y @= concat(s.p.a, s.p.a) + 1
class L12(Component):  # two blocks of one cycle linked in the SAME direction by a plain signal and by a struct field (field written, whole struct read)
  def construct(s):
    s.in_ = InPort(8); s.in2 = InPort(8); s.p = Wire(8); s.c = Wire(8); s.d = Wire(8); s.e = OutPort(8); s.st = Wire(Pair8); s.y = OutPort(Pair8)
    @update
    def up_pre(): s.p @= s.in2
    @update
    def up_use():
      s.y @= s.st
      s.e @= s.c
      s.d @= s.p
    @update
    def up_pack():
      s.st.a @= s.in_
      s.st.b @= 3
      s.c @= s.d + 1
class L12twin(Component):
  def construct(s):
    s.in_ = InPort(8); s.in2 = InPort(8); s.e = OutPort(8); s.y = OutPort(Pair8)
    @update
    def up():
      s.y.a @= s.in_
      s.y.b @= 3
      s.e @= s.in2 + 1
class L13(Component):  # same with slices: a slice written, the whole wire read, plus a second plain signal in the same direction
  def construct(s):
    s.in_ = InPort(4); s.in2 = InPort(4); s.w = Wire(8); s.c = Wire(4); s.d = Wire(4); s.y = OutPort(8); s.e = OutPort(4)
    @update
    def up_use():
      s.y @= s.w
      s.e @= s.c
      s.d @= s.in2
    @update
    def up_pack():
      s.w[0:4] @= s.in_
      s.w[4:8] @= 5
      s.c @= s.d + 1
class Lane(Component):
  def construct(s):
    s.in_ = InPort(4); s.en = InPort(); s.x = InPort(4); s.out = OutPort(4)
    @update
    def up_lane():
      if s.en: s.out @= (s.in_ >> 1) | s.x
      else:    s.out @= s.in_ >> 1
class RingComp(Component):   # a large cyclic group made of sibling component instances (identical block names)
  def construct(s):
    n = 12
    s.x = InPort(4); s.en = InPort(n); s.out = OutPort(4)
    s.lane = [Lane() for _ in range(n)]
    for i in range(n):
      s.lane[i].in_ //= s.lane[(i - 1) % n].out
      s.lane[i].en //= s.en[i]
      s.lane[i].x //= s.x
    s.out //= s.lane[n - 1].out
class PLane(Component):
  def construct(s, k):
    s.in_ = InPort(8); s.out = OutPort(8)
    @update
    def up():
      if s.in_ < 128: s.out @= s.in_ + k
      else:           s.out @= s.in_ - k
class ForkJoin(Component):   # wide fork/join false loop: 12 PARALLEL sibling lanes (identical block names) between a fork and a join block
  def construct(s):
    s.in_ = InPort(8); s.in2 = InPort(8); s.x = Wire(8); s.w = Wire(8); s.z = OutPort(8); s.total = OutPort(8)
    s.lanes = [PLane(i + 1) for i in range(12)]
    for i in range(12): s.lanes[i].in_ //= s.x
    @update
    def up_fork():
      s.x @= s.in_
      s.z @= s.w + 1
    @update
    def up_join():
      s.w @= s.in2
      s.total @= s.lanes[0].out ^ s.lanes[1].out ^ s.lanes[2].out ^ s.lanes[3].out ^ s.lanes[4].out ^ s.lanes[5].out ^ \
                 s.lanes[6].out ^ s.lanes[7].out ^ s.lanes[8].out ^ s.lanes[9].out ^ s.lanes[10].out ^ s.lanes[11].out
class L8(Component):   # false loop through list elements
  def construct(s):
    s.in_ = InPort(4); s.out = OutPort(4); s.v = [Wire(4) for _ in range(3)]
    @update
    def upA():
      s.v[0] @= s.in_
      s.out  @= s.v[2]
    @update
    def upB():
      s.v[1] @= s.v[0] + 1
    @update
    def upC():
      s.v[2] @= s.v[1] ^ s.v[0]
class Inv(Component):
  def construct(s):
    s.in_ = InPort(2); s.out = OutPort(2)
    @update
    def up_inv(): s.out @= ~s.in_
class L9(Component):   # divergent loop spanning components through nets: a = ~a
  def construct(s):
    s.en = InPort(); s.out = OutPort(2); s.i = Inv(); s.m = Wire(2)
    s.m //= s.i.out
    s.out //= s.m
    @update
    def up_back(): s.i.in_ @= s.m if s.en else 0
class Ring(Component):   # a large cyclic group with a branch in every block; every hop shifts right, so the loop forgets any
                          # prior state after 4 hops and converges under every block order (a ring of plain copies would rotate forever under a reversed order)
  def construct(s):
    n = 12
    s.in_ = InPort(4); s.en = InPort(n); s.out = OutPort(4)
    s.x = [Wire(4) for _ in range(n)]
    @update
    def up_ring0():
      if s.en[0]: s.x[0] @= (s.x[11] >> 1) | s.in_
      else:        s.x[0] @= s.x[11] >> 1
    @update
    def up_ring1():
      if s.en[1]: s.x[1] @= (s.x[0] >> 1) | s.in_
      else:        s.x[1] @= s.x[0] >> 1
    @update
    def up_ring2():
      if s.en[2]: s.x[2] @= (s.x[1] >> 1) | s.in_
      else:        s.x[2] @= s.x[1] >> 1
    @update
    def up_ring3():
      if s.en[3]: s.x[3] @= (s.x[2] >> 1) | s.in_
      else:        s.x[3] @= s.x[2] >> 1
    @update
    def up_ring4():
      if s.en[4]: s.x[4] @= (s.x[3] >> 1) | s.in_
      else:        s.x[4] @= s.x[3] >> 1
    @update
    def up_ring5():
      if s.en[5]: s.x[5] @= (s.x[4] >> 1) | s.in_
      else:        s.x[5] @= s.x[4] >> 1
    @update
    def up_ring6():
      if s.en[6]: s.x[6] @= (s.x[5] >> 1) | s.in_
      else:        s.x[6] @= s.x[5] >> 1
    @update
    def up_ring7():
      if s.en[7]: s.x[7] @= (s.x[6] >> 1) | s.in_
      else:        s.x[7] @= s.x[6] >> 1
    @update
    def up_ring8():
      if s.en[8]: s.x[8] @= (s.x[7] >> 1) | s.in_
      else:        s.x[8] @= s.x[7] >> 1
    @update
    def up_ring9():
      if s.en[9]: s.x[9] @= (s.x[8] >> 1) | s.in_
      else:        s.x[9] @= s.x[8] >> 1
    @update
    def up_ring10():
      if s.en[10]: s.x[10] @= (s.x[9] >> 1) | s.in_
      else:        s.x[10] @= s.x[9] >> 1
    @update
    def up_ring11():
      if s.en[11]: s.x[11] @= (s.x[10] >> 1) | s.in_
      else:        s.x[11] @= s.x[10] >> 1
    @update
    def up_o(): s.out @= s.x[11]
class RingMixed(Component):   # a large cyclic group in which blocks WITH a branch alternate with branch-free blocks that do real work
                               # (every hop shifts right: converges under every block order)
  def construct(s):
    n = 12
    s.in_ = InPort(4); s.en = InPort(n); s.out = OutPort(4)
    s.x = [Wire(4) for _ in range(n)]
    @update
    def up_mix0():
      if s.en[0]: s.x[0] @= (s.x[11] >> 1) | s.in_
      else:        s.x[0] @= s.x[11] >> 1
    @update
    def up_mix1(): s.x[1] @= (s.x[0] >> 1) | (s.in_ & 5)
    @update
    def up_mix2():
      if s.en[2]: s.x[2] @= (s.x[1] >> 1) | s.in_
      else:        s.x[2] @= s.x[1] >> 1
    @update
    def up_mix3(): s.x[3] @= (s.x[2] >> 1) | (s.in_ & 15)
    @update
    def up_mix4():
      if s.en[4]: s.x[4] @= (s.x[3] >> 1) | s.in_
      else:        s.x[4] @= s.x[3] >> 1
    @update
    def up_mix5(): s.x[5] @= (s.x[4] >> 1) | (s.in_ & 9)
    @update
    def up_mix6():
      if s.en[6]: s.x[6] @= (s.x[5] >> 1) | s.in_
      else:        s.x[6] @= s.x[5] >> 1
    @update
    def up_mix7(): s.x[7] @= (s.x[6] >> 1) | (s.in_ & 3)
    @update
    def up_mix8():
      if s.en[8]: s.x[8] @= (s.x[7] >> 1) | s.in_
      else:        s.x[8] @= s.x[7] >> 1
    @update
    def up_mix9(): s.x[9] @= (s.x[8] >> 1) | (s.in_ & 13)
    @update
    def up_mix10():
      if s.en[10]: s.x[10] @= (s.x[9] >> 1) | s.in_
      else:        s.x[10] @= s.x[9] >> 1
    @update
    def up_mix11(): s.x[11] @= (s.x[10] >> 1) | (s.in_ & 7)
    @update
    def up_o(): s.out @= s.x[11] ^ s.x[4]
class L14(Component):   # TWO separate cyclic groups (false loops) in one design, the second fed by the first
  def construct(s):
    s.in_ = InPort(8); s.out = OutPort(8); s.a = Wire(8); s.b = Wire(8); s.c = Wire(8); s.d = Wire(8); s.e = Wire(8); s.f = Wire(8)
    @update
    def l1_x():
      s.a @= s.in_ + 1
      s.b @= s.c + 1
    @update
    def l1_y(): s.c @= s.a + 1
    @update
    def l2_x():
      s.d @= s.b ^ 0xff
      s.e @= s.f + 3
    @update
    def l2_y(): s.f @= s.d + 1
    @update
    def up_out(): s.out @= s.e
class L14twin(Component):
  def construct(s):
    s.in_ = InPort(8); s.out = OutPort(8); s.b = Wire(8); s.e = Wire(8)
    @update
    def up_b(): s.b @= s.in_ + 3
    @update
    def up_e(): s.e @= ((s.b ^ 0xff) + 1) + 3
    @update
    def up_out(): s.out @= s.e
class L15(Component):   # a written slice strictly contains the slice the other block reads (and the other way round): block-level cycle
  def construct(s):
    s.in_ = InPort(8); s.a = Wire(16); s.q = Wire(4); s.out = OutPort(8); s.o2 = OutPort(4)
    @update
    def upW():
      s.a[0:8] @= s.in_ ^ 0x5a
      s.o2 @= s.q + 1
    @update
    def upR():
      s.q @= s.a[2:6]            # the ONLY read of s.a: the cycle is closed by a written slice that strictly contains the read one
      s.out @= s.in_
class L15twin(Component):
  def construct(s):
    s.in_ = InPort(8); s.out = OutPort(8); s.o2 = OutPort(4); s.a = Wire(8)
    @update
    def up_a(): s.a @= s.in_ ^ 0x5a
    @update
    def up_o():
      s.out @= s.in_
      s.o2 @= s.a[2:6] + 1
class L16(Component):   # reader slice contains the written slices
  def construct(s):
    s.in_ = InPort(8); s.a = Wire(8); s.q = Wire(6); s.o2 = OutPort(6)
    @update
    def upW():
      s.a[2:4] @= s.in_[0:2]
      s.a[4:6] @= s.in_[2:4]
      s.a[0:2] @= 0
      s.a[6:8] @= 3
      s.o2 @= s.q
    @update
    def upR(): s.q @= s.a[1:7]
class L16twin(Component):
  def construct(s):
    s.in_ = InPort(8); s.o2 = OutPort(6)
    @update
    def up_o(): s.o2 @= concat(Bits1(1), s.in_[2:4], s.in_[0:2], Bits1(0))
class Once(Component):   # update_once inside a cycle: must be rejected at scheduling time
  def construct(s):
    s.in_ = InPort(4); s.a = Wire(4); s.b = Wire(4)
    @update
    def upA(): s.a @= s.b | s.in_
    @update_once
    def upB(): s.b @= s.a & 6
'''
NAMES = ['L0', 'L1', 'L2', 'L3', 'L4', 'L5', 'L6', 'L7', 'L8', 'L9', 'L10', 'L11', 'L12', 'L13', 'L14', 'L15', 'L16', 'Ring', 'RingComp', 'ForkJoin', 'RingMixed']
TWINS = {'L6': ('L6twin', ['s.w']), 'L7': ('L7twin', ['s.z']), 'L10': ('L10twin', ['s.q', 's.z']), 'L12': ('L12twin', ['s.e', 's.y.a', 's.y.b']),
         'L14': ('L14twin', ['s.out', 's.b', 's.e']), 'L15': ('L15twin', ['s.out', 's.o2']), 'L16': ('L16twin', ['s.o2'])}
_mod = None


def module():
  global _mod
  if _mod is None:
    d = tempfile.mkdtemp(prefix='cycle_', dir=os.environ.get('VERIF_SCRATCH') or None)
    fn = os.path.join(d, 'verif_cycle_mod.py')
    with open(fn, 'w') as f: f.write(SRC)
    spec = importlib.util.spec_from_file_location('verif_cycle_mod', fn)
    _mod = importlib.util.module_from_spec(spec)
    sys.modules['verif_cycle_mod'] = _mod
    spec.loader.exec_module(_mod)
  return _mod


def get(name):
  return getattr(module(), name.split(':')[-1])
