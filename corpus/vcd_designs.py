"""Small designs for C16 (waveform dumps).  Plain pymtl3 only (replays import this file)."""
from pymtl3 import *


@bitstruct
class VPair:
  hi: Bits2
  lo: Bits3


class VIncChild(Component):
  def construct(s):
    s.in_ = InPort(4); s.out = OutPort(4)
    @update
    def up_vc(): s.out @= s.in_ + 1


class VInc(Component):
  """combinational; two ports on one net; a one-bit output"""
  def construct(s):
    s.in_ = InPort(4); s.out = OutPort(4); s.o2 = OutPort(4); s.msb = OutPort(1)
    s.o2 //= s.out
    @update
    def up_vi():
      s.out @= s.in_ + 1
      s.msb @= s.in_[3]


class VReg(Component):
  """a register with enable; a wire that is never driven (never changes)"""
  def construct(s):
    s.in_ = InPort(3); s.en = InPort(); s.out = OutPort(3); s.idle = Wire(5)
    @update_ff
    def up_vr():
      if s.en: s.out <<= s.in_


class VStruct(Component):
  """struct-typed signals (dumped as their packed value), a connected field"""
  def construct(s):
    s.in_ = InPort(VPair); s.out = OutPort(VPair); s.lo_only = OutPort(3)
    s.lo_only //= s.in_.lo
    @update
    def up_vs():
      s.out.hi @= s.in_.lo[0:2]
      s.out.lo @= concat(s.in_.hi, s.in_.lo[2])


class VHier(Component):
  """child component whose ports share nets with the parent's signals; a constant-tied wire; list ports"""
  def construct(s):
    s.in_ = InPort(4); s.o = [OutPort(4) for _ in range(2)]; s.k = Wire(4); s.mid = Wire(4)
    s.c = VIncChild()
    s.c.in_ //= s.in_
    s.mid //= s.c.out
    s.k //= 5
    s.o[0] //= s.mid
    @update
    def up_vh(): s.o[1] @= s.mid ^ s.k


class VRegChain(Component):
  """two registers in two components; value visible one cycle later"""
  def construct(s):
    s.in_ = InPort(2); s.out = OutPort(2)
    s.r = Wire(2)
    @update_ff
    def up_r1(): s.r <<= s.in_
    @update_ff
    def up_r2(): s.out <<= s.r


class VOnce(Component):
  """not a pure RTL design (an update_once block): the tick has no leading combinational pass, the dump shows the
  values the signals hold when the tick starts"""
  def construct(s):
    s.in_ = InPort(3); s.out = OutPort(3); s.cnt = OutPort(2)
    @update_once
    def up_once(): s.out @= s.in_ ^ 5
    @update_ff
    def up_cnt(): s.cnt <<= s.cnt + 1


class VConsts(Component):
  """several constant-tied wires next to (in whatever order the dump picks) input-driven nets of the same widths"""
  def construct(s):
    s.a = InPort(4); s.b = InPort(4); s.c = InPort(3)
    s.k1 = Wire(4); s.k2 = Wire(4); s.k3 = Wire(4); s.k4 = Wire(3); s.k5 = Wire(3); s.k6 = Wire(4); s.k7 = Wire(4); s.k8 = Wire(3)
    s.k1 //= 5; s.k2 //= 9; s.k3 //= 15; s.k4 //= 3; s.k5 //= 6; s.k6 //= 1; s.k7 //= 12; s.k8 //= 7
    s.oa = OutPort(4); s.ob = OutPort(4); s.oc = OutPort(3)
    s.oa //= s.a; s.ob //= s.b; s.oc //= s.c


class VMany(Component):
  """more nets than there are one-character VCD identifiers (94); only a few of the inputs are driven"""
  def construct(s):
    n = 100
    s.in_ = [InPort(3) for _ in range(n)]; s.out = [OutPort(3) for _ in range(n)]
    for i in range(n): s.out[i] //= s.in_[i]


class VRstChild(Component):
  def construct(s):
    s.in_ = InPort(2); s.out = OutPort(2)
    @update_ff
    def up_rc():
      if s.reset: s.out <<= 2
      else:       s.out <<= s.in_


class VRst(Component):
  """registers with a synchronous reset, one in a child (its reset port is on the top's reset net); driven with the reset
  symbolic in every cycle (items with reset='sym'), which contains every sim_reset()-like prefix"""
  def construct(s):
    s.in_ = InPort(2); s.out = OutPort(2); s.cnt = OutPort(2); s.rcopy = OutPort(1)
    s.c = VRstChild()
    s.c.in_ //= s.in_; s.out //= s.c.out
    s.rcopy //= s.reset
    @update_ff
    def up_rs():
      if s.reset: s.cnt <<= 1
      else:       s.cnt <<= s.cnt + 1


# ports driven symbolically (default: every top-level input)
SYMBOLIC_PORTS = {'VMany': ['s.in_[0]', 's.in_[97]'], 'VConsts': ['s.a', 's.c']}

DESIGNS = {'VMany': VMany, 'VOnce': VOnce, 'VConsts': VConsts, 'VInc': VInc, 'VReg': VReg, 'VStruct': VStruct, 'VHier': VHier, 'VRegChain': VRegChain, 'VRst': VRst}

# designs also explored with s.reset symbolic in every cycle
SYM_RESET = ['VRst', 'VReg', 'VHier']
