"""Connection corpus for C08: each design = declarations + update blocks + a LIST of connect statements; variants are
obtained by permuting the statements and swapping the two sides of each.  All designs are legal by construction."""
import importlib.util
import itertools
import os
import sys
import tempfile

HDR = '''from pymtl3 import *
@bitstruct
class In2:
  a: Bits4
  b: Bits4
@bitstruct
class Out3:
  p: In2
  q: Bits8
class Leaf(Component):
  def construct(s):
    s.in_ = InPort(8); s.out = OutPort(8)
    @update
    def up_leaf(): s.out @= s.in_ + 1
class Mid(Component):
  def construct(s, stmts):
    s.in_ = InPort(8); s.out = OutPort(8); s.l = Leaf()
    for k, (a, b) in enumerate(stmts):
      connect(eval(a), eval(b))
class PLeaf(Component):       # input and output ports only, pass-through inside by a net
  def construct(s):
    s.in_ = InPort(8); s.out = OutPort(8)
    s.out //= s.in_
'''

# name -> (declarations + blocks source, [ (lhs, rhs) connect statements ], extra constructor pieces)
D = {}
D['chain'] = ('''
    s.in_ = InPort(8); s.out = OutPort(8); s.a = Wire(8); s.b = Wire(8); s.c = Wire(8)
    @update
    def up_a(): s.a @= s.in_ ^ 0x5a
''', [('s.b', 's.a'), ('s.c', 's.b'), ('s.out', 's.c')])
D['slices'] = ('''
    s.in_ = InPort(8); s.lo = OutPort(4); s.hi = OutPort(4); s.mid = OutPort(4); s.x = Wire(8)
    @update
    def up_x(): s.x @= s.in_ + 3
''', [('s.lo', 's.x[0:4]'), ('s.hi', 's.x[4:8]'), ('s.mid', 's.x[2:6]')])
D['slice_driven_wider_connected'] = ('''
    s.in_ = InPort(8); s.lo_in = InPort(4); s.out = OutPort(16); s.w = OutPort(8); s.x = Wire(16)
    @update
    def up_x():
      s.x[4:8] @= s.in_[0:4]
      s.x[0:4] @= s.in_[4:8]
      s.x[8:16] @= s.in_
''', [('s.out', 's.x[0:16]'), ('s.w', 's.x[2:10]')])
D['inner_slice_only'] = ('''
    s.in_ = InPort(8); s.out = OutPort(16); s.w = OutPort(8); s.x = Wire(16)
    @update
    def up_x(): s.x[4:8] @= s.in_[0:4]
''', [('s.out', 's.x[0:16]'), ('s.w', 's.x[2:10]')])
D['struct_fields'] = ('''
    s.in_ = InPort(In2); s.a = OutPort(4); s.b = OutPort(4); s.whole = OutPort(In2); s.bit = OutPort(2)
''', [('s.a', 's.in_.a'), ('s.b', 's.in_.b'), ('s.whole', 's.in_'), ('s.bit', 's.in_.b[1:3]')])
D['nested_whole_driven'] = ('''
    s.in_ = InPort(8); s.w = Wire(Out3); s.o1 = OutPort(4); s.o2 = OutPort(4); s.o3 = OutPort(In2); s.o4 = OutPort(8)
    @update
    def up_w(): s.w @= Out3(In2(s.in_[0:4], s.in_[4:8]), s.in_ + 1)
''', [('s.o1', 's.w.p.a'), ('s.o2', 's.w.q[0:4]'), ('s.o3', 's.w.p'), ('s.o4', 's.w.q')])
D['nested_middle_level'] = ('''
    s.v = InPort(4); s.in_ = InPort(8); s.w = Wire(Out3); s.out = OutPort(In2); s.oq = OutPort(8)
    @update
    def up_rest():
      s.w.p.b @= s.in_[0:4]
      s.w.q @= s.in_
''', [('s.w.p.a', 's.v'), ('s.out', 's.w.p'), ('s.oq', 's.w.q')])
D['const'] = ('''
    s.in_ = InPort(8); s.out = OutPort(8); s.k = OutPort(8); s.c = Wire(8)
    @update
    def up_o(): s.out @= s.in_ + s.c
''', [('s.c', '42'), ('s.k', 's.c')])
D['hier3'] = ('''
    s.in_ = InPort(8); s.out = OutPort(8); s.o2 = OutPort(8)
    s.m = Mid([('s.l.in_', 's.in_'), ('s.out', 's.l.out')])
    s.p = PLeaf()
''', [('s.m.in_', 's.in_'), ('s.p.in_', 's.m.out'), ('s.out', 's.p.out'), ('s.o2', 's.m.out')])
D['fanout'] = ('''
    s.in_ = InPort(8); s.o = [OutPort(8) for _ in range(3)]; s.x = Wire(8)
    @update
    def up_x(): s.x @= ~s.in_
''', [('s.o[0]', 's.x'), ('s.o[1]', 's.o[0]'), ('s.o[2]', 's.x')])

D['slice_of_slice'] = ('''
    s.in_ = InPort(8); s.o4 = OutPort(4); s.w = OutPort(8); s.x = Wire(16)
    @update
    def up_x():
      s.x[0:8] @= s.in_
      s.x[8:16] @= ~s.in_
''', [('s.o4', 's.x[2:12][2:6]'), ('s.w', 's.x[2:10]')])
D['nested_slice_driven'] = ('''
    s.in_ = InPort(8); s.in2 = InPort(4); s.w = Wire(16); s.y = OutPort(4)
''', [('s.w[2:12][2:6]', 's.in_[0:4]'), ('s.w[8:12]', 's.in2'), ('s.y', 's.w[6:10]')])
D['nested_slice_driven_alone'] = ('''
    s.in_ = InPort(8); s.w = Wire(16); s.y = OutPort(2)
''', [('s.w[2:12][2:6]', 's.in_[0:4]'), ('s.y', 's.w[5:7]')])
D['const_parts'] = ('''
    s.in_ = InPort(8); s.out = OutPort(8); s.ow = OutPort(8); s.os = OutPort(In2); s.w = Wire(8); s.st = Wire(In2); s.l = Leaf()
    @update
    def up_lo(): s.w[0:4] @= s.in_[0:4]
''', [('s.w[4:8]', '10'), ('s.st.a', '3'), ('s.st.b', 's.in_[4:8]'), ('s.l.in_[0:4]', '5'), ('s.l.in_[4:8]', 's.in_[0:4]'), ('s.ow', 's.w'), ('s.os', 's.st'), ('s.out', 's.l.out')])
D['piecewise_then_whole'] = ('''
    s.in_ = InPort(8); s.p = Wire(In2); s.q = Wire(In2); s.oa = OutPort(4); s.ob = OutPort(2); s.oq = OutPort(In2)
    @update
    def up_pa(): s.p.a @= s.in_[0:4]
''', [('s.p.b', 's.in_[4:8]'), ('s.q', 's.p'), ('s.oa', 's.q.a'), ('s.ob', 's.q.b[1:3]'), ('s.oq', 's.q')])
D['equal_constants'] = ('''
    s.in_ = InPort(8); s.out = OutPort(8); s.k1 = OutPort(8); s.k2 = OutPort(8); s.c1 = Wire(8); s.c2 = Wire(8); s.l = Leaf()
    @update
    def up_o(): s.out @= s.in_ + s.c1 + s.l.out
''', [('s.c1', '5'), ('s.c2', '5'), ('s.k1', 's.c1'), ('s.k2', 's.c2'), ('s.l.in_', '5')])

# the writer is a FIELD / a SLICE and the net has several whole-signal readers next to field readers of other structs
D['field_writer_mixed_readers'] = ('''
    s.in_ = InPort(In2); s.mid = Wire(In2); s.w = Wire(4); s.out = OutPort(4); s.outb = OutPort(4)
''', [('s.mid.b', 's.in_.a'), ('s.w', 's.in_.a'), ('s.out', 's.w'), ('s.outb', 's.mid.b')])
D['block_field_writer_mixed_readers'] = ('''
    s.in_ = InPort(8); s.p = Wire(In2); s.q = Wire(Out3); s.r = Wire(In2); s.w = Wire(4); s.o1 = OutPort(4); s.o2 = OutPort(4); s.o3 = OutPort(2); s.x = Wire(8)
    @update
    def up_pa():
      s.p.a @= s.in_[0:4] + 1
      s.p.b @= s.in_[4:8]
''', [('s.q.p.b', 's.p.a'), ('s.r.a', 's.p.a'), ('s.w', 's.r.a'), ('s.o1', 's.w'), ('s.o2', 's.q.p.b'), ('s.x[2:6]', 's.p.a'), ('s.o3', 's.x[3:5]')])
D['slice_writer_mixed_readers'] = ('''
    s.in_ = InPort(8); s.a = Wire(4); s.b = Wire(4); s.st = Wire(In2); s.o1 = OutPort(4); s.o2 = OutPort(4); s.o3 = OutPort(4)
''', [('s.a', 's.in_[2:6]'), ('s.st.b', 's.in_[2:6]'), ('s.b', 's.a'), ('s.o1', 's.b'), ('s.o2', 's.st.b'), ('s.o3', 's.in_[2:6]')])

# connect statements executed inside child components (so that the connection graph can be written down without pymtl3)
EXTRA_EDGES = {'hier3': [('s.m.l.in_', 's.m.in_'), ('s.m.out', 's.m.l.out'), ('s.p.out', 's.p.in_')]}


# the writer of every net, written down by hand from the rule in the property ("the member driven by an update block, a
# top-level input, a constant, or a bit-overlapping driven relative"); one writer per connected component
WRITERS = {
  'chain': ['s.a'],                                              # s.a is written by up_a
  'slices': ['s.x[0:4]', 's.x[2:6]', 's.x[4:8]'],                # slices of the block-written s.x
  'slice_driven_wider_connected': ['s.x[0:16]', 's.x[2:10]'],    # relatives overlapping the block-written slices of s.x
  'inner_slice_only': ['s.x[0:16]', 's.x[2:10]'],
  'struct_fields': ['s.in_', 's.in_.a', 's.in_.b', 's.in_.b[1:3]'],   # the top-level input and its parts
  'nested_whole_driven': ['s.w.p', 's.w.p.a', 's.w.q', 's.w.q[0:4]'],
  'nested_middle_level': ['s.v', 's.w.p', 's.w.q'],             # s.v (input) drives s.w.p.a; s.w.p overlaps driven fields
  'const': ['CONST:42'],
  'hier3': ['s.in_', 's.m.l.out'],                                # top-level input; the leaf's block-written output
  'fanout': ['s.x'],
  'nested_slice_driven': ['s.in2', 's.in_[0:4]', 's.w[6:10]'],     # s.w[6:10] overlaps the net-driven s.w[4:8] (written as s.w[2:12][2:6]) and s.w[8:12]
  'nested_slice_driven_alone': ['s.in_[0:4]', 's.w[5:7]'],
  'const_parts': ['CONST:10', 'CONST:3', 'CONST:5', 's.in_[0:4]', 's.in_[4:8]', 's.l.out', 's.st', 's.w'],   # constants into a slice, a field, a child's port slice
  'slice_of_slice': ['s.x[2:10]', 's.x[4:8]'],                   # s.x[2:12][2:6] IS s.x[4:8]; both overlap block-written slices
  'piecewise_then_whole': ['s.in_[4:8]', 's.p', 's.q.a', 's.q.b[1:3]'],   # s.p: one field by a block, one by a net -> driven relative; s.q driven whole by s.p, so its parts drive
  'equal_constants': ['CONST:5', 'CONST:5', 'CONST:5'],
  'field_writer_mixed_readers': ['s.in_.a'],                      # a field of the top-level input
  'block_field_writer_mixed_readers': ['s.p.a', 's.x[3:5]'],      # the block-written field; s.x[3:5] overlaps the net-driven s.x[2:6]
  'slice_writer_mixed_readers': ['s.in_[2:6]'],           # every literal is its own constant: three separate nets
}


def variants(stmts, limit=None):
  limit = limit or int(os.environ.get('VERIF_VARIANTS', '24'))      # thorough tier: 240
  n = len(stmts)
  out = []
  perms = list(itertools.permutations(range(n)))
  flips = list(itertools.product((0, 1), repeat=n))
  allv = [(p, f) for p in perms for f in flips]
  if len(allv) > limit:
    step = len(allv) / limit
    allv = [allv[int(i * step)] for i in range(limit)]
    if (tuple(range(n)), tuple([0] * n)) not in allv: allv[0] = (tuple(range(n)), tuple([0] * n))
  for p, f in allv:
    out.append([(stmts[i][1], stmts[i][0]) if f[k] else stmts[i] for k, i in enumerate(p)])
  return out


_mod = None
_index = {}


def _build():
  global _mod
  if _mod is not None: return
  src = HDR
  for name, (decl, stmts) in D.items():
    for vi, v in enumerate(variants(stmts)):
      cn = f"C_{name}_{vi}"
      body = decl.rstrip() + "\n" + "".join(f"    connect({a}, {b})\n" for a, b in v)
      src += f"\nclass {cn}(Component):\n  def construct(s):{body}\n"
      _index[(name, vi)] = (cn, v)
  d = tempfile.mkdtemp(prefix='conn_', dir=os.environ.get('VERIF_SCRATCH') or None)
  fn = os.path.join(d, 'verif_conn_mod.py')
  with open(fn, 'w') as f: f.write(src)
  spec = importlib.util.spec_from_file_location('verif_conn_mod', fn)
  _mod = importlib.util.module_from_spec(spec)
  sys.modules['verif_conn_mod'] = _mod
  spec.loader.exec_module(_mod)


def names(): return list(D)
def nvariants(name): _build(); return len([1 for (n, v) in _index if n == name])
def get(name, vi): _build(); return getattr(_mod, _index[(name, vi)][0])
def statements(name, vi): _build(); return _index[(name, vi)][1]
def source_of(name, vi):
  decl, stmts = D[name]
  return decl, statements(name, vi)
