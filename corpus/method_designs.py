"""Method-ordering designs for C02 ("explicit block and method ordering constraints are honoured too").  Plain pymtl3 only
(replays import this file).  Every block appends its own name to top.log when it runs.

NEED[name] is written down by hand from the rule -- `M(a) < M(b)`: every block calling a runs before every block calling
b; `U(x) < M(a)` / `M(a) < U(x)`: block x before / after every caller of a; the order is transitive, also through methods
that no block calls; a caller port connected to a callee port calls that callee's method -- never derived from pymtl3."""
from pymtl3 import *


class Stage(Component):
  """three-phase object: put < peek < take (constraints given in `order`)"""
  def construct(s, order=0):
    s.v = 0
    s.put = CalleePort(method=s.put_); s.peek = CalleePort(method=s.peek_); s.take = CalleePort(method=s.take_)
    cs = [M(s.put) < M(s.peek), M(s.peek) < M(s.take)]
    if order: cs.reverse()
    s.add_constraints(*cs)
  def put_(s, v): s.v = v
  def peek_(s): return s.v
  def take_(s): return s.v


class _Logged(Component):
  def mklog(s): s.log = []


class ChainUncalledMiddle(_Logged):
  def construct(s, order=0):
    s.mklog(); s.st = Stage(order); s.got = 0
    @update_once
    def consumer(): s.log.append('consumer'); s.got = s.st.take()
    @update_once
    def producer(): s.log.append('producer'); s.st.put(5)


class ChainCalledMiddle(_Logged):
  def construct(s):
    s.mklog(); s.st = Stage(); s.got = 0; s.seen = 0
    @update_once
    def consumer(): s.log.append('consumer'); s.got = s.st.take()
    @update_once
    def peeker(): s.log.append('peeker'); s.seen = s.st.peek()
    @update_once
    def producer(): s.log.append('producer'); s.st.put(5)


class Four(Component):
  """a < b < c < d and a diamond a < x < d, a < y < d"""
  def construct(s, diamond=False):
    s.n = 0
    s.a = CalleePort(method=s.a_); s.b = CalleePort(method=s.b_); s.c = CalleePort(method=s.c_); s.d = CalleePort(method=s.d_)
    if diamond: s.add_constraints(M(s.b) < M(s.d), M(s.a) < M(s.c), M(s.c) < M(s.d), M(s.a) < M(s.b))
    else:       s.add_constraints(M(s.c) < M(s.d), M(s.a) < M(s.b), M(s.b) < M(s.c))
  def a_(s): s.n += 1
  def b_(s): s.n += 1
  def c_(s): s.n += 1
  def d_(s): s.n += 1


class LongChain(_Logged):
  """two uncalled methods between the called ones"""
  def construct(s, diamond=False):
    s.mklog(); s.f = Four(diamond)
    @update_once
    def last(): s.log.append('last'); s.f.d()
    @update_once
    def first(): s.log.append('first'); s.f.a()


class ManyCallers(_Logged):
  """two callers on either end of put < peek < take (peek uncalled): four ordered pairs"""
  def construct(s):
    s.mklog(); s.st = Stage(); s.g1 = 0; s.g2 = 0
    @update_once
    def cons1(): s.log.append('cons1'); s.g1 = s.st.take()
    @update_once
    def cons2(): s.log.append('cons2'); s.g2 = s.st.take()
    @update_once
    def prod1(): s.log.append('prod1'); s.st.put(1)
    @update_once
    def prod2(): s.log.append('prod2'); s.st.put(2)


class Inner(Component):
  """calls the stage through caller ports connected by the parent"""
  def construct(s, log, tag, what):
    s.call = CallerPort(); s.r = 0
    if what == 'put':
      @update_once
      def up_put(): log.append(tag); s.call(7)
    else:
      @update_once
      def up_take(): log.append(tag); s.r = s.call()


class ThroughPorts(_Logged):
  """the callers sit in child components and reach the stage through method nets; the middle method is not called"""
  def construct(s):
    s.mklog(); s.st = Stage(1)
    s.c = Inner(s.log, 'c.up_take', 'take'); s.p = Inner(s.log, 'p.up_put', 'put')
    s.c.call //= s.st.take
    s.p.call //= s.st.put


class BlockAndMethod(_Logged):
  """U(x) < M(a), M(b) < U(y) with a < m < b, m uncalled: pre < callers(a) < callers(b) < post, and pre < post transitively"""
  def construct(s):
    s.mklog(); s.st = Stage(); s.got = 0
    @update_once
    def post(): s.log.append('post')
    @update_once
    def consumer(): s.log.append('consumer'); s.got = s.st.take()
    @update_once
    def producer(): s.log.append('producer'); s.st.put(3)
    @update_once
    def pre(): s.log.append('pre')
    s.add_constraints(U(pre) < M(s.st.put), M(s.st.take) < U(post))


class TwoStages(_Logged):
  """one block between two stages: it takes from the first and puts into the second; both middles uncalled"""
  def construct(s):
    s.mklog(); s.s1 = Stage(); s.s2 = Stage(1); s.got = 0
    @update_once
    def sink(): s.log.append('sink'); s.got = s.s2.take()
    @update_once
    def mover(): s.log.append('mover'); s.s2.put(s.s1.take())
    @update_once
    def source(): s.log.append('source'); s.s1.put(9)


DESIGNS = {
  'chain_uncalled_middle': lambda: ChainUncalledMiddle(0),
  'chain_uncalled_middle_rev': lambda: ChainUncalledMiddle(1),
  'chain_called_middle': ChainCalledMiddle,
  'long_chain': lambda: LongChain(False),
  'diamond': lambda: LongChain(True),
  'many_callers': ManyCallers,
  'through_ports': ThroughPorts,
  'block_and_method': BlockAndMethod,
  'two_stages': TwoStages,
}

NEED = {
  'chain_uncalled_middle': [('producer', 'consumer')],
  'chain_uncalled_middle_rev': [('producer', 'consumer')],
  'chain_called_middle': [('producer', 'peeker'), ('peeker', 'consumer'), ('producer', 'consumer')],
  'long_chain': [('first', 'last')],
  'diamond': [('first', 'last')],
  'many_callers': [('prod1', 'cons1'), ('prod1', 'cons2'), ('prod2', 'cons1'), ('prod2', 'cons2')],
  'through_ports': [('p.up_put', 'c.up_take')],
  'block_and_method': [('pre', 'producer'), ('producer', 'consumer'), ('consumer', 'post'), ('pre', 'post'), ('pre', 'consumer'), ('producer', 'post')],
  'two_stages': [('source', 'mover'), ('mover', 'sink'), ('source', 'sink')],
}

BLOCKS = {
  'chain_uncalled_middle': ['consumer', 'producer'], 'chain_uncalled_middle_rev': ['consumer', 'producer'],
  'chain_called_middle': ['consumer', 'peeker', 'producer'], 'long_chain': ['first', 'last'], 'diamond': ['first', 'last'],
  'many_callers': ['cons1', 'cons2', 'prod1', 'prod2'], 'through_ports': ['c.up_take', 'p.up_put'],
  'block_and_method': ['consumer', 'post', 'pre', 'producer'], 'two_stages': ['mover', 'sink', 'source'],
}


def build(name, sched, picks=None):
  """elaborate and schedule on the plain library.  sched: 'simple' | 'dynamic' | 'heutopo' | 'default' (= DefaultPassGroup).
  picks: scripted outcomes of random.shuffle for SimpleSchedulePass (a list of indices moved to the end of the queue)"""
  import random
  from pymtl3.passes.sim.GenDAGPass import GenDAGPass
  from pymtl3.passes.sim.WrapGreenletPass import WrapGreenletPass
  from pymtl3.passes.sim.SimpleSchedulePass import SimpleSchedulePass
  from pymtl3.passes.sim.DynamicSchedulePass import DynamicSchedulePass
  from pymtl3.passes.mamba.HeuristicTopoPass import HeuristicTopoPass
  top = DESIGNS[name]()
  top.elaborate()
  if sched == 'default':
    top.apply(DefaultPassGroup()); return top
  GenDAGPass()(top); WrapGreenletPass()(top)
  if picks is not None:
    orig = random.shuffle; it = iter(picks)
    def scripted(q):
      if len(q) <= 1: return
      i = next(it, 0)
      if i < len(q): q.append(q.pop(i))
    random.shuffle = scripted
  try:
    {'simple': SimpleSchedulePass, 'dynamic': DynamicSchedulePass, 'heutopo': HeuristicTopoPass}[sched]()(top)
  finally:
    if picks is not None: random.shuffle = orig
  return top


def run_order(top, ticks=2):
  """the order in which the blocks actually run in each tick"""
  from pymtl3.passes.sim.PrepareSimPass import PrepareSimPass
  if not hasattr(top, 'sim_tick'): PrepareSimPass(print_line_trace=False)(top)
  out = []
  for _ in range(ticks):
    del top.log[:]
    top.sim_tick()
    out.append(list(top.log))
  return out


def problems(name, orders):
  """orders: list of per-tick block-name lists; returns the first violation of NEED / exactly-once or None"""
  for order in orders:
    for b in BLOCKS[name]:
      if order.count(b) != 1: return f"block {b} ran {order.count(b)} times in one tick (order {order})"
    for a, b in NEED[name]:
      if not order.index(a) < order.index(b): return f"{b} ran before {a} although the method constraints order {a} first (order {order})"
  return None
