"""Replacement corpus for C15: a base hierarchy, a history of replace_component / replace_component_with_obj calls, and
the same design built from scratch with the replacements in place."""
from pymtl3 import *
from pymtl3.dsl import CallerPort, method_port, M


class Plain(Component):
  def construct(s):
    s.in_ = InPort(32); s.out = OutPort(32)
    @update
    def up_plain(): s.out @= s.in_


class Swapper(Component):
  def construct(s):
    s.in_ = InPort(32); s.out = OutPort(32)
    @update
    def up_swap():
      s.out[0:16] @= s.in_[16:32]
      s.out[16:32] @= s.in_[0:16]


class Adder(Component):
  def construct(s):
    s.in_ = InPort(32); s.out = OutPort(32)
    @update
    def up_add(): s.out @= s.in_ + 7


class RegStage(Component):
  def construct(s):
    s.in_ = InPort(32); s.out = OutPort(32)
    @update_ff
    def up_reg():
      if s.reset: s.out <<= 0
      else: s.out <<= s.in_ ^ 0x55


class WithConst(Component):
  def construct(s):
    s.in_ = InPort(32); s.out = OutPort(32); s.k = Wire(32)
    s.k //= 0x1234
    @update
    def up_wc(): s.out @= s.in_ + s.k


class Nested(Component):
  def construct(s):
    s.in_ = InPort(32); s.out = OutPort(32)
    s.a = Adder(); s.b = Swapper()
    s.a.in_ //= s.in_; s.b.in_ //= s.a.out; s.out //= s.b.out


class WithConstraint(Component):
  def construct(s):
    s.in_ = InPort(32); s.out = OutPort(32); s.t = Wire(32); s.u = Wire(32)
    @update
    def up_t(): s.t @= s.in_ + 1
    @update
    def up_u(): s.u @= s.in_ + 2
    @update
    def up_o(): s.out @= s.t ^ s.u
    s.add_constraints(U(up_t) < U(up_u))


class NestedConst(Component):
  """a child (and a grandchild) of the replaced component ties a constant to one of its own signals"""
  def construct(s):
    s.in_ = InPort(32); s.out = OutPort(32)
    s.a = WithConst(); s.n = Nested()
    s.a.in_ //= s.in_; s.n.in_ //= s.a.out; s.out //= s.n.out
    s.pad = Wire(8)
    s.pad //= 0x5a


class WithRdWr(Component):
  """explicit read/write constraints: up_late reads s.t although it is ordered before the writer's readers"""
  def construct(s):
    s.in_ = InPort(32); s.out = OutPort(32); s.t = Wire(32); s.u = Wire(32); s.v = Wire(32)
    @update
    def up_t(): s.t @= s.in_ + 3
    @update
    def up_u(): s.u @= s.t ^ 0x0f0f
    @update
    def up_v(): s.v @= s.in_ + 5
    @update
    def up_o(): s.out @= s.u + s.v
    s.add_constraints(WR(s.v) < U(up_u), U(up_v) < RD(s.t))


class StructuralConstrained(Component):
  """owns no update block itself, but constrains its children's blocks and signals"""
  def construct(s):
    s.in_ = InPort(32); s.out = OutPort(32); s.side = Wire(32)
    s.a = Adder(); s.b = Plain(); s.c = Swapper()
    s.a.in_ //= s.in_; s.b.in_ //= s.in_; s.c.in_ //= s.a.out; s.side //= s.b.out; s.out //= s.c.out
    s.add_constraints(U(s.a.get_update_block('up_add')) < U(s.b.get_update_block('up_plain')),
                      WR(s.side) < U(s.c.get_update_block('up_swap')),
                      U(s.b.get_update_block('up_plain')) < RD(s.a.out))


class Sink(Component):
  @method_port
  def recv(s, v): s.log.append(v)
  def construct(s): s.log = []


class WithSink(Component):
  """has an INTERNAL method net (caller port connected to a child's method) and no method connection to its parent"""
  def construct(s):
    s.in_ = InPort(32); s.out = OutPort(32)
    s.sink = Sink()
    s.send = CallerPort()
    s.send //= s.sink.recv
    @update_once
    def up_send(): s.send(s.in_)
    @update
    def up_out(): s.out @= s.in_ + 1


class Wrapper(Component):
  def construct(s, Inner=Plain):
    s.in_ = InPort(32); s.out = OutPort(32)
    s.inner = Inner()
    s.inner.in_ //= s.in_; s.out //= s.inner.out


KINDS = {'Plain': Plain, 'Swapper': Swapper, 'Adder': Adder, 'RegStage': RegStage, 'WithConst': WithConst, 'Nested': Nested, 'WithConstraint': WithConstraint, 'WithSink': WithSink, 'WithRdWr': WithRdWr, 'StructuralConstrained': StructuralConstrained, 'NestedConst': NestedConst}


class Top(Component):
  """chain: c[0] -> c[1] -> c[2] -> w(inner) -> out"""
  def construct(s, kinds=('Plain', 'Plain', 'Plain'), wrapped='Plain'):
    s.in_ = InPort(32); s.out = OutPort(32); s.tap = OutPort(32)
    s.c = [KINDS[k]() for k in kinds]
    s.w = Wrapper(KINDS[wrapped])
    s.c[0].in_ //= s.in_
    for i in range(1, len(kinds)): s.c[i].in_ //= s.c[i - 1].out
    s.w.in_ //= s.c[-1].out
    s.out //= s.w.out
    s.tap //= s.c[1].out


# name -> (history of (target expression, new kind, how), final kinds, final wrapped)
HISTORIES = {
  'mid_swapper':       ([('s.c[1]', 'Swapper', 'cls')], ('Plain', 'Swapper', 'Plain'), 'Plain'),
  'mid_adder_obj':     ([('s.c[1]', 'Adder', 'obj')], ('Plain', 'Adder', 'Plain'), 'Plain'),
  'twice_same_slot':   ([('s.c[1]', 'Swapper', 'cls'), ('s.c[1]', 'RegStage', 'cls')], ('Plain', 'RegStage', 'Plain'), 'Plain'),
  'first_and_last':    ([('s.c[0]', 'Adder', 'cls'), ('s.c[2]', 'Swapper', 'obj')], ('Adder', 'Plain', 'Swapper'), 'Plain'),
  'depth2':            ([('s.w.inner', 'Adder', 'cls')], ('Plain', 'Plain', 'Plain'), 'Adder'),
  'depth2_and_list':   ([('s.w.inner', 'Swapper', 'cls'), ('s.c[1]', 'WithConst', 'cls')], ('Plain', 'WithConst', 'Plain'), 'Swapper'),
  'nested_children':   ([('s.c[1]', 'Nested', 'cls')], ('Plain', 'Nested', 'Plain'), 'Plain'),
  'nested_then_plain': ([('s.c[1]', 'Nested', 'cls'), ('s.c[1]', 'Plain', 'cls')], ('Plain', 'Plain', 'Plain'), 'Plain'),
  'with_constraint':   ([('s.c[2]', 'WithConstraint', 'cls')], ('Plain', 'Plain', 'WithConstraint'), 'Plain'),
  'constraint_away':   ([('s.c[2]', 'WithConstraint', 'cls'), ('s.c[2]', 'Adder', 'cls')], ('Plain', 'Plain', 'Adder'), 'Plain'),
  'rdwr_constraints':  ([('s.c[1]', 'WithRdWr', 'cls')], ('Plain', 'WithRdWr', 'Plain'), 'Plain'),
  'rdwr_away':         ([('s.c[1]', 'WithRdWr', 'cls'), ('s.c[1]', 'Swapper', 'obj')], ('Plain', 'Swapper', 'Plain'), 'Plain'),
  'rdwr_twice':        ([('s.c[0]', 'WithRdWr', 'cls'), ('s.c[0]', 'WithRdWr', 'cls'), ('s.w.inner', 'WithRdWr', 'cls'), ('s.w.inner', 'Adder', 'cls')], ('WithRdWr', 'Plain', 'Plain'), 'Adder'),
  'structural_constraints': ([('s.c[1]', 'StructuralConstrained', 'cls')], ('Plain', 'StructuralConstrained', 'Plain'), 'Plain'),
  'structural_away':   ([('s.c[1]', 'StructuralConstrained', 'cls'), ('s.c[1]', 'Adder', 'cls'), ('s.w.inner', 'StructuralConstrained', 'obj'), ('s.w.inner', 'Plain', 'cls')], ('Plain', 'Adder', 'Plain'), 'Plain'),
  'nested_const':      ([('s.c[1]', 'NestedConst', 'cls')], ('Plain', 'NestedConst', 'Plain'), 'Plain'),
  'nested_const_away': ([('s.c[1]', 'NestedConst', 'cls'), ('s.c[1]', 'NestedConst', 'obj'), ('s.w.inner', 'NestedConst', 'cls'), ('s.w.inner', 'Swapper', 'cls')], ('Plain', 'NestedConst', 'Plain'), 'Swapper'),
  'internal_method_net': ([('s.c[1]', 'WithSink', 'cls')], ('Plain', 'WithSink', 'Plain'), 'Plain'),
  'method_net_away':   ([('s.c[1]', 'WithSink', 'cls'), ('s.c[1]', 'Adder', 'cls')], ('Plain', 'Adder', 'Plain'), 'Plain'),
  'reg_everywhere':    ([('s.c[0]', 'RegStage', 'cls'), ('s.c[1]', 'RegStage', 'cls'), ('s.w.inner', 'RegStage', 'obj')], ('RegStage', 'RegStage', 'Plain'), 'RegStage'),
}


# ---------------------------------------------------------------------------
# second base design: richer boundary between the parent and the replaced child -- one outside signal fanned out to
# several ports and slices of the child, a constant tie-off, child outputs fanned out to slices, a struct field
# ---------------------------------------------------------------------------
@bitstruct
class Cfg:
  sh: Bits5
  inv: Bits1


class Alu(Component):
  def construct(s):
    s.a = InPort(32); s.b = InPort(32); s.amt = InPort(5); s.cfg = InPort(Cfg); s.out = OutPort(32); s.lo = OutPort(16)
    @update
    def up_alu():
      s.out @= (s.a + s.b) << zext(s.amt, 32)
      s.lo @= s.a[0:16] ^ s.b[16:32]


class Alu2(Component):
  def construct(s):
    s.a = InPort(32); s.b = InPort(32); s.amt = InPort(5); s.cfg = InPort(Cfg); s.out = OutPort(32); s.lo = OutPort(16)
    s.r = Wire(32)
    @update_ff
    def up_r(): s.r <<= s.a ^ (s.b >> zext(s.amt, 32))
    @update
    def up_alu2():
      if s.cfg.inv: s.out @= ~s.r
      else:         s.out @= s.r + zext(s.cfg.sh, 32)
      s.lo @= s.b[0:16]


KINDS2 = {'Alu': Alu, 'Alu2': Alu2}


class Top2(Component):
  def construct(s, kind='Alu'):
    s.in_ = InPort(32); s.out = OutPort(32); s.tap = OutPort(32)
    s.x = KINDS2[kind]()
    s.x.a //= s.in_; s.x.b //= s.in_            # one outside signal into two ports of the child
    s.x.amt //= 3                               # constant tie-off
    s.x.cfg.sh //= s.in_[0:5]; s.x.cfg.inv //= s.in_[7]     # the same outside signal into fields, by slices
    s.out //= s.x.out
    s.tap[0:16] //= s.x.lo; s.tap[16:32] //= s.x.lo          # one child output into two slices


HIST2 = {
  'fanout_const_cls':   ([('s.x', 'Alu2', 'cls')], 'Alu2'),
  'fanout_const_obj':   ([('s.x', 'Alu2', 'obj')], 'Alu2'),
  'fanout_const_twice': ([('s.x', 'Alu2', 'cls'), ('s.x', 'Alu', 'cls')], 'Alu'),
  'fanout_const_same':  ([('s.x', 'Alu', 'cls'), ('s.x', 'Alu', 'obj'), ('s.x', 'Alu2', 'cls')], 'Alu2'),
}


# ---------------------------------------------------------------------------
# third base design: update_once blocks of the PARENT call method ports of the replaced child directly
# ---------------------------------------------------------------------------
class Slot(Component):
  @method_port
  def put(s, v): s.slot = v
  @method_port
  def take(s):
    r, s.slot = s.slot, 0
    return r
  def construct(s, order='bypass'):
    s.slot = 0
    if order == 'bypass': s.add_constraints(M(s.put) < M(s.take))
    else:                 s.add_constraints(M(s.take) < M(s.put))


class SlotPlus(Component):          # (no inheritance: pymtl3 turns only the methods of the class itself into method ports)
  @method_port
  def put(s, v): s.slot = v + 1
  @method_port
  def take(s):
    r, s.slot = s.slot, 0
    return r
  def construct(s, order='bypass'):
    s.slot = 0
    if order == 'bypass': s.add_constraints(M(s.put) < M(s.take))
    else:                 s.add_constraints(M(s.take) < M(s.put))


KINDS3 = {'Slot': Slot, 'SlotPlus': SlotPlus}


class Top3(Component):
  def construct(s, kind='Slot', order='bypass'):
    s.in_ = InPort(32); s.out = OutPort(32); s.tap = OutPort(32)
    s.q = KINDS3[kind](order)
    s.got = Wire(32)
    @update_once
    def up_take(): s.got @= s.q.take()
    @update_once
    def up_put(): s.q.put(s.in_)
    @update
    def up_o():
      s.out @= s.got
      s.tap @= s.in_


HIST3 = {
  'parent_calls_child_bypass': ([('s.q', 'SlotPlus', 'cls')], 'SlotPlus', 'bypass'),
  'parent_calls_child_pipe':   ([('s.q', 'SlotPlus', 'cls'), ('s.q', 'Slot', 'cls')], 'Slot', 'pipe'),
}


def _apply(top, hist, kinds):
  for target, kind, how in hist:
    foo = eval(target, {'s': top})
    if how == 'cls': top.replace_component(foo, kinds[kind])
    else: top.replace_component_with_obj(foo, kinds[kind](*foo._dsl.args, **foo._dsl.kwargs))
  return top


def replaced(name):
  """elaborated design after the history (passes not applied yet)"""
  if name in HIST2:
    top = Top2(); top.elaborate(); return _apply(top, HIST2[name][0], KINDS2)
  if name in HIST3:
    top = Top3('Slot', HIST3[name][2]); top.elaborate(); return _apply(top, HIST3[name][0], KINDS3)
  hist, kinds, wrapped = HISTORIES[name]
  top = Top(); top.elaborate()
  for target, kind, how in hist:
    foo = eval(target, {'s': top})
    if how == 'cls': top.replace_component(foo, KINDS[kind])
    else: top.replace_component_with_obj(foo, KINDS[kind]())
  return top


def scratch(name):
  if name in HIST2: return Top2(HIST2[name][1])
  if name in HIST3: return Top3(HIST3[name][1], HIST3[name][2])
  hist, kinds, wrapped = HISTORIES[name]
  return Top(kinds, wrapped)


CL_HISTORIES = {'internal_method_net'} | set(HIST3)      # designs with method ports: only sim_tick() exists


def all_names(): return list(HISTORIES) + list(HIST2) + list(HIST3)
def history_of(name): return (HISTORIES.get(name) or HIST2.get(name) or HIST3.get(name))[0]
