"""Registry of designs for translation validation (C03/C12) and the schedule corpus.  name -> constructor."""
import importlib


def case_names():
  import pymtl3.passes.testcases.test_cases as TC
  return sorted(n for n in dir(TC) if n.startswith('Case') and hasattr(getattr(TC, n), 'DUT'))


def stdlib_names():
  from corpus import stdlib_designs as SD
  from corpus import tv_extra
  return sorted(SD.DESIGNS) + sorted(EXTRA) + sorted(tv_extra.DESIGNS)


def _ex(mod, cls, *a):
  def mk():
    import sys
    import os
    repo = os.environ.get('VERIF_REPO', '/repo')
    if repo not in sys.path: sys.path.insert(0, repo)
    return getattr(importlib.import_module(mod), cls)(*a)
  return mk


EXTRA = {
  'ex:ChecksumRTL': _ex('examples.ex02_cksum.ChecksumRTL', 'ChecksumRTL'),
  'ex:ProcRTL': _ex('examples.ex03_proc.ProcRTL', 'ProcRTL'),
}


def get(name):
  if name.startswith('case:'):
    import pymtl3.passes.testcases.test_cases as TC
    return getattr(TC, name[5:]).DUT
  if name.startswith('stdlib:'):
    from corpus import stdlib_designs as SD
    return SD.DESIGNS[name]
  if name.startswith('ff:'):
    from corpus import ff_designs as FD
    return FD.DESIGNS[name[3:]]
  if name.startswith('gen:'):
    from corpus import exprgen
    return exprgen.get(name)
  if name.startswith(('shape:', 'hand:')):
    from corpus import sched_designs
    return sched_designs.get(name)
  if name.startswith('mm:'):
    from corpus import mismatchgen
    return mismatchgen.get(name)
  if name.startswith('cyc:'):
    from corpus import cycle_designs
    return cycle_designs.get(name)
  if name.startswith('x:'):
    from corpus import tv_extra
    return tv_extra.DESIGNS[name]
  if name in EXTRA: return EXTRA[name]
  raise KeyError(name)


def stable_key(name):
  if name.startswith('gen:'):
    from corpus import exprgen
    return 'gen[' + ' '.join(exprgen.describe(name).split()) + ']'
  if name.startswith('mm:'):
    from corpus import mismatchgen
    return 'mm[' + ' '.join(mismatchgen.describe(name).split()) + ']'
  if name.startswith('shape:'):
    from corpus import sched_designs
    return 'shape[' + sched_designs.describe(name) + ']'
  return name
