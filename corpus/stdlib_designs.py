"""Library components used as corpus designs (plain pymtl3; no z3)."""
from pymtl3 import *


def _q(kind, n):
  import pymtl3.stdlib.queues.queues as Q
  return lambda: getattr(Q, kind)(Bits8, n)


def _sq(kind, n):
  import pymtl3.stdlib.stream.queues as Q
  return lambda: getattr(Q, kind)(Bits8, n)


def _arb(cls, n):
  import pymtl3.stdlib.basic_rtl.arbiters as A
  return lambda: getattr(A, cls)(n)


DESIGNS = {
  'stdlib:NormalQueueRTL2': _q('NormalQueueRTL', 2),
  'stdlib:PipeQueueRTL2': _q('PipeQueueRTL', 2),
  'stdlib:BypassQueueRTL4': _q('BypassQueueRTL', 4),
  'stdlib:NormalQueueRTL1': _q('NormalQueueRTL', 1),
  'stdlib:StreamPipeQueue2': _sq('PipeQueueRTL', 2),
  'stdlib:StreamBypassQueue2': _sq('BypassQueueRTL', 2),
  'stdlib:RoundRobinArbiterEn3': _arb('RoundRobinArbiterEn', 3),
  'stdlib:RoundRobinArbiter4': _arb('RoundRobinArbiter', 4),
}
