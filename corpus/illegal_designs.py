"""Rule corpus for C09: small hierarchies generated from finite rule tables, each with the outcome the property
demands -- None (elaborates) or the name of the error class -- written down from the documented rules, never derived
from pymtl3.  Every case comes in several statement orders.  Plain Python + pymtl3 only (replays import this file).

Hierarchy (every component has an InPort i, an OutPort o and a Wire w; Leaf and G drive their own o from i):

    Top s ── m: Mid ── a: Leaf ── g: G
          │          └ b: Leaf ── g: G
          └ n: Mid ...

A case = (family, name, {component class: [permutable body statements]}, extra declarations, expected).
"""
import importlib.util
import itertools
import os
import sys
import tempfile

HDR = '''from pymtl3 import *
@bitstruct
class Pt:
  f: Bits4
  g: Bits4
@bitstruct
class Deep:
  p: Pt
  q: Bits8
class PIfc(Interface):
  def construct(s):
    s.pi = InPort(8); s.po = OutPort(8)
'''

SKEL = '''
class G_{k}(Component):
  def construct(s):
    s.i = InPort(8); s.o = OutPort(8); s.o2 = OutPort(8); s.w = Wire(8); s.t0 = Wire(8); s.t1 = Wire(8); s.t2 = Wire(8); s.t3 = Wire(8); s.ifc = PIfc()
{G_DECL}{G}
class Leaf_{k}(Component):
  def construct(s):
    s.i = InPort(8); s.o = OutPort(8); s.o2 = OutPort(8); s.w = Wire(8); s.t0 = Wire(8); s.t1 = Wire(8); s.t2 = Wire(8); s.t3 = Wire(8); s.ifc = PIfc()
    s.g = G_{k}()
{Leaf_DECL}{Leaf}
class Mid_{k}(Component):
  def construct(s):
    s.i = InPort(8); s.i2 = InPort(8); s.o = OutPort(8); s.w = Wire(8); s.t = Wire(8); s.st = Wire(Pt); s.si = InPort(Pt); s.dp = Wire(Deep); s.ifc = PIfc()
    s.a = Leaf_{k}(); s.b = Leaf_{k}()
{Mid_DECL}{Mid}
class Top_{k}(Component):
  def construct(s):
    s.i = InPort(8); s.o = OutPort(8); s.w = Wire(8); s.sti = InPort(Pt)
    s.m = Mid_{k}(); s.n = Mid_{k}()
{Top_DECL}{Top}
'''

# default bodies: G and Leaf drive their output, so that child OutPorts are legal net writers
DEFAULT = {
  'G': ["@update\ndef g_drive(): s.o @= s.i"],
  'Leaf': ["@update\ndef leaf_drive(): s.o @= s.i"],
  'Mid': [],
  'Top': ["connect(s.m.i, s.i)", "connect(s.n.i, s.i)", "connect(s.m.si, s.sti)", "connect(s.n.si, s.sti)"],      # Mid's inputs are driven
}

CASES = []     # (family, name, bodies, expected)


def case(family, name, expected, **bodies):
  b = {k: list(v) for k, v in DEFAULT.items()}
  for k, v in bodies.items():
    if k.endswith('_only'): b[k[:-5]] = list(v)
    else: b[k] = b[k] + list(v)
  CASES.append((family, name, b, expected))


# ---------------------------------------------------------------------------
# A. port rules for update blocks (block hosted by Mid)
#    read : InPort/OutPort anywhere below, a Wire only of the block's own component
#    write: own OutPort / own Wire / a DIRECT child's InPort; nothing else
# ---------------------------------------------------------------------------
POS = {'own': 's', 'child': 's.a', 'grandchild': 's.a.g'}
for pos, pre in POS.items():
  for kind, attr in (('InPort', 'i'), ('OutPort', 'o'), ('Wire', 'w')):
    sig = f"{pre}.{attr}"
    wsig = 's.i2' if (kind, pos) == ('InPort', 'own') else sig      # s.i2 is not connected anywhere: a write to it breaks the port rule and nothing else
    ok_read = kind != 'Wire' or pos == 'own'
    case('port-rule/read', f"read {kind} of {pos}", None if ok_read else 'SignalTypeError',
         Mid=[f"@update\ndef blk(): s.t @= {sig}", "@update\ndef other(): s.o @= s.i + 1"])
    ok_write = (kind == 'InPort' and pos == 'child') or (kind in ('OutPort', 'Wire') and pos == 'own')
    # the written signal must not have a second driver: Leaf/G drive their own o, so writing it from Mid is BOTH a port-rule
    # violation and a second driver; either error class is "the corresponding error"
    exp = None if ok_write else ('SignalTypeError|MultiWriterError' if kind == 'OutPort' and pos != 'own' else 'SignalTypeError')
    case('port-rule/write', f"write {kind} of {pos}", exp,
         Mid=[f"@update\ndef blk(): {wsig} @= s.i", "@update\ndef other(): s.t @= s.i + 1"])
    case('port-rule/write-ff', f"ff-write {kind} of {pos}", exp,
         Mid=[f"@update_ff\ndef blk(): {wsig} <<= s.i", "@update\ndef other(): s.t @= s.i + 1"])

# ports that sit inside an INTERFACE of the component obey the same rules as its plain ports
for pos, pre in POS.items():
  for kind, attr in (('InPort', 'ifc.pi'), ('OutPort', 'ifc.po')):
    sig = f"{pre}.{attr}"
    case('port-rule/read', f"read interface {kind} of {pos}", None,
         Mid=[f"@update\ndef blk(): s.t @= {sig}", "@update\ndef other(): s.o @= s.i + 1"])
    ok_write = (kind == 'InPort' and pos == 'child') or (kind == 'OutPort' and pos == 'own')
    case('port-rule/write', f"write interface {kind} of {pos}", None if ok_write else 'SignalTypeError',
         Mid=[f"@update\ndef blk(): {sig} @= s.i", "@update\ndef other(): s.t @= s.i + 1"])
    case('port-rule/write-ff', f"ff-write interface {kind} of {pos}", None if ok_write else 'SignalTypeError',
         Mid=[f"@update_ff\ndef blk(): {sig} <<= s.i", "@update\ndef other(): s.t @= s.i + 1"])
# ... and for connections: a parent drives a child's interface InPort and reads its interface OutPort; the reverse is illegal
case('connect/interface', 'parent wire drives child interface InPort, child interface OutPort drives parent wire', None,
     Mid=["connect(s.a.ifc.pi, s.i)", "connect(s.t, s.a.ifc.po)"], Leaf=["@update\ndef leaf_ifc(): s.ifc.po @= s.ifc.pi"])
case('connect/interface', 'own interface OutPort driven by a net from the own InPort', None,
     Mid=["connect(s.ifc.po, s.i)"])
case('connect/interface', 'block-written parent wire connected to a child interface OutPort that the child drives', 'MultiWriterError|SignalTypeError|InvalidConnectionError',
     Mid=["@update\ndef drv(): s.t @= s.i", "connect(s.a.ifc.po, s.t)"], Leaf=["@update\ndef leaf_ifc(): s.ifc.po @= s.i"])

# the rule is per (block, signal): the owner reading its own wire does not make an outside read legal
OWNER_READS_LEAF = ["@update\ndef leaf_self(): s.o2 @= s.w"]
OWNER_READS_G = ["@update\ndef g_self(): s.o2 @= s.w"]
# several owner blocks reading the wire (whichever block a checker happens to look at first, the outside read stays illegal)
OWNER_READS_LEAF4 = [f"@update\ndef leaf_self{j}(): s.t{j} @= s.w + {j}" for j in range(4)]
OWNER_READS_G4 = [f"@update\ndef g_self{j}(): s.t{j} @= s.w ^ {j}" for j in range(4)]
case('port-rule/read', 'read Wire of child that the child reads itself', 'SignalTypeError',
     Mid=["@update\ndef blk(): s.t @= s.a.w", "@update\ndef other(): s.o @= s.i + 1"], Leaf=OWNER_READS_LEAF)
case('port-rule/read', 'read Wire of grandchild that the grandchild reads itself', 'SignalTypeError',
     Mid=["@update\ndef blk(): s.t @= s.a.g.w", "@update\ndef other(): s.o @= s.i + 1"], G=OWNER_READS_G)
case('port-rule/read', 'read Wire of child that four blocks of the child read', 'SignalTypeError',
     Mid=["@update\ndef blk(): s.t @= s.a.w", "@update\ndef other(): s.o @= s.i + 1"], Leaf=OWNER_READS_LEAF4)
case('port-rule/read', 'read Wire of grandchild that four blocks of the grandchild read', 'SignalTypeError',
     Mid=["@update\ndef blk(): s.t @= s.a.g.w", "@update\ndef other(): s.o @= s.i + 1"], G=OWNER_READS_G4)
case('port-rule/read', 'two outside blocks read the child wire the child reads too', 'SignalTypeError',
     Mid=["@update\ndef blk(): s.t @= s.a.w", "@update\ndef blk2(): s.o @= s.b.w + s.i"], Leaf=OWNER_READS_LEAF4)
case('port-rule/read', 'own Wire read by two blocks of the owner', None,
     Mid=["@update\ndef blk(): s.t @= s.w", "@update\ndef other(): s.o @= s.w + 1", "@update\ndef drv(): s.w @= s.i"])
case('port-rule/write', 'write Wire of child that the child writes itself', 'SignalTypeError|MultiWriterError',
     Mid=["@update\ndef blk(): s.a.w @= s.i", "@update\ndef other(): s.o @= s.i + 1"], Leaf=["@update\ndef leaf_w(): s.w @= s.i"])

# ---------------------------------------------------------------------------
# B. port rules for connections.  The net writer is given: a top-level input, a block-written Wire/OutPort of Mid,
#    a child's OutPort, a constant.  reader rules (documented in the Type 5..9 messages):
#      same host            : reader must be OutPort or Wire
#      writer in child      : writer OutPort, reader OutPort or Wire
#      writer in parent     : reader must be an InPort
#      siblings             : writer OutPort, reader InPort
#      further apart        : never
# ---------------------------------------------------------------------------
DRV_W = ["@update\ndef drv(): s.w @= s.i"]          # Mid drives its own wire
DRV_O = ["@update\ndef drv(): s.o @= s.i"]          # Mid drives its own OutPort
conn = lambda a, b: [f"connect({a}, {b})", f"connect({b}, {a})"]
CONN = [
  # (name, statements in Mid (beyond the driver), expected)
  ('own Wire -> own OutPort', DRV_W, 's.o', 's.w', None),
  ('own Wire -> own Wire', DRV_W, 's.t', 's.w', None),
  ('own OutPort -> own Wire', DRV_O, 's.t', 's.o', None),
  ('own Wire -> own InPort', DRV_W, 's.i', 's.w', 'SignalTypeError|MultiWriterError'),
  ('own Wire -> own undriven InPort', DRV_W, 's.i2', 's.w', 'SignalTypeError'),            # i2/o2 have no other driver: only the port rule is broken
  ('own Wire -> child undriven OutPort', DRV_W, 's.a.o2', 's.w', 'SignalTypeError'),
  ('constant -> own undriven InPort', [], 's.i2', '5', 'SignalTypeError'),
  ('constant -> child undriven OutPort', [], 's.a.o2', '5', 'SignalTypeError'),
  ('constant -> child Wire', [], 's.a.w', '5', 'SignalTypeError'),
  ('constant -> grandchild InPort', [], 's.a.g.i', '5', 'SignalTypeError'),
  ('constant -> own OutPort', [], 's.o', '5', None),
  ('child undriven OutPort read by own Wire', [], 's.t', 's.a.o2', 'NoWriterError'),
  ('own Wire -> child InPort', DRV_W, 's.a.i', 's.w', None),
  ('own InPort -> child InPort', [], 's.a.i', 's.i', None),
  ('own Wire -> child OutPort', DRV_W, 's.a.o', 's.w', 'SignalTypeError|MultiWriterError'),
  ('own Wire -> child Wire', DRV_W, 's.a.w', 's.w', 'SignalTypeError'),
  ('child OutPort -> own OutPort', [], 's.o', 's.a.o', None),
  ('child OutPort -> own Wire', [], 's.t', 's.a.o', None),
  ('child OutPort -> sibling InPort', [], 's.b.i', 's.a.o', None),
  ('child OutPort -> sibling Wire', [], 's.b.w', 's.a.o', 'SignalTypeError'),
  ('child OutPort -> grandchild InPort', [], 's.b.g.i', 's.a.o', 'SignalTypeError'),
  ('own Wire -> grandchild InPort', DRV_W, 's.a.g.i', 's.w', 'SignalTypeError'),
  ('grandchild OutPort -> own Wire', [], 's.t', 's.a.g.o', 'SignalTypeError'),
  ('grandchild OutPort -> cousin InPort', [], 's.b.g.i', 's.a.g.o', 'SignalTypeError'),            # hosts two levels apart on both sides: never
  ('grandchild OutPort -> cousin Wire', [], 's.b.g.w', 's.a.g.o', 'SignalTypeError'),
  ('child OutPort -> cousin-level InPort of the other child', [], 's.b.g.i', 's.a.o', 'SignalTypeError'),
  ('constant -> own Wire', [], 's.t', '5', None),
  ('constant -> child InPort', [], 's.a.i', '5', None),
  ('constant -> own InPort', [], 's.i', '5', 'SignalTypeError|MultiWriterError'),
]
for name, drv, reader, writer, exp in CONN:
  for k, st in enumerate(conn(reader, writer)):
    if writer.isdigit() and k == 1: continue
    case('port-rule/connect', f"{name} [{'reader first' if k == 0 else 'writer first'}]", exp, Mid=drv + [st, "@update\ndef other(): s.b.i @= s.i + 1"] if 's.b.i' not in (reader, writer) else drv + [st])

# ---------------------------------------------------------------------------
# C. nets without a driver
# ---------------------------------------------------------------------------
case('no-writer', 'two undriven wires', 'NoWriterError', Mid=["connect(s.w, s.t)", "@update\ndef other(): s.o @= s.i"])
case('no-writer', 'undriven wire into a child', 'NoWriterError', Mid=["connect(s.a.i, s.w)", "@update\ndef other(): s.o @= s.i"])
case('no-writer', 'undriven OutPort read by a wire', 'NoWriterError', Mid=["connect(s.t, s.o)", "@update\ndef other(): s.w @= s.i"])
case('no-writer', 'chain of three, none driven', 'NoWriterError', Mid=["connect(s.w, s.t)", "connect(s.a.i, s.t)", "connect(s.b.i, s.w)"])
case('no-writer', 'same chain, driven by a block', None, Mid=["connect(s.w, s.t)", "connect(s.a.i, s.t)", "connect(s.b.i, s.w)", "@update\ndef drv(): s.t @= s.i"])
case('no-writer', 'same chain, driven by the input port', None, Mid=["connect(s.w, s.t)", "connect(s.a.i, s.t)", "connect(s.b.i, s.w)", "connect(s.t, s.i)"])
case('no-writer', 'slice of an undriven wire', 'NoWriterError', Mid=["connect(s.a.i[0:4], s.w[0:4])", "@update\ndef other(): s.o @= s.i"])
case('no-writer', 'slice of a wire driven elsewhere (no overlap)', 'NoWriterError', Mid=["connect(s.a.i[0:4], s.w[0:4])", "@update\ndef drv(): s.w[4:8] @= s.i[0:4]"])
case('no-writer', 'slice overlapping a driven slice', None, Mid=["connect(s.a.i[0:4], s.w[2:6])", "@update\ndef drv(): s.w[4:8] @= s.i[0:4]"])

# ---------------------------------------------------------------------------
# D. connection loops
# ---------------------------------------------------------------------------
case('loop', 'three wires in a ring', 'InvalidConnectionError', Mid=["connect(s.w, s.t)", "connect(s.t, s.o)", "connect(s.o, s.w)", "@update\ndef drv(): s.w @= s.i"])
case('loop', 'ring through a child', 'InvalidConnectionError', Mid=["connect(s.a.i, s.w)", "connect(s.b.i, s.w)", "connect(s.a.i, s.b.i)", "@update\ndef drv(): s.w @= s.i"])
case('loop', 'same three wires as a path', None, Mid=["connect(s.w, s.t)", "connect(s.t, s.o)", "@update\ndef drv(): s.w @= s.i"])
case('loop', 'ring of four with the input port', 'InvalidConnectionError', Mid=["connect(s.w, s.i)", "connect(s.t, s.w)", "connect(s.a.i, s.t)", "connect(s.a.i, s.i)"])

# ---------------------------------------------------------------------------
# E. assignment operators
# ---------------------------------------------------------------------------
for deco, good, errcls in (('update', '@=', 'UpdateBlockWriteError'), ('update_ff', '<<=', 'UpdateFFBlockWriteError')):
  for op in ('@=', '<<=', '=', '+=', '|=', '>>='):
    if op == '>>=' and deco == 'update': pass
    case('operator', f"{op} in @{deco}", None if op == good else errcls,
         Mid=[f"@{deco}\ndef blk(): s.w {op} s.i", "@update\ndef other(): s.o @= s.i"])
  case('operator', f"temporary = in @{deco}", None, Mid=[f"@{deco}\ndef blk():\n  x = s.i + 1\n  s.w {good} x", "@update\ndef other(): s.o @= s.i"])
  case('operator', f"slice {good} in @{deco}", None if deco == 'update' else 'UpdateFFNonTopLevelSignalError',
       Mid=[f"@{deco}\ndef blk(): s.w[0:4] {good} s.i[0:4]", "@update\ndef other(): s.o @= s.i"])
  case('operator', f"field {good} in @{deco}", None if deco == 'update' else 'UpdateFFNonTopLevelSignalError',
       Mid=[f"@{deco}\ndef blk(): s.st.f {good} s.i[0:4]", "@update\ndef other(): s.o @= s.i"])

# ---------------------------------------------------------------------------
# F. two drivers
# ---------------------------------------------------------------------------
W = lambda n, tgt, src='s.i': f"@update\ndef {n}(): {tgt} @= {src}"
case('two-drivers', 'two blocks write one wire', 'MultiWriterError', Mid=[W('b1', 's.w'), W('b2', 's.w', 's.i + 1')])
case('two-drivers', 'comb block and ff block', 'MultiWriterError', Mid=[W('b1', 's.w'), "@update_ff\ndef b2(): s.w <<= s.i"])
case('two-drivers', 'block and net', 'MultiWriterError', Mid=[W('b1', 's.w'), "connect(s.w, s.i)"])
case('two-drivers', 'block and child output', 'MultiWriterError', Mid=[W('b1', 's.w'), "connect(s.w, s.a.o)"])
case('two-drivers', 'two child outputs on one net', 'MultiWriterError', Mid=["connect(s.w, s.a.o)", "connect(s.w, s.b.o)"])
case('two-drivers', 'two child outputs through two wires', 'MultiWriterError', Mid=["connect(s.w, s.a.o)", "connect(s.t, s.b.o)", "connect(s.t, s.w)"])
case('two-drivers', 'input port and child output', 'MultiWriterError|SignalTypeError', Mid=["connect(s.w, s.a.o)", "connect(s.w, s.i)"])
case('two-drivers', 'constant and block', 'MultiWriterError', Mid=[W('b1', 's.w'), "connect(s.w, 3)"])
case('two-drivers', 'constant and child output', 'MultiWriterError', Mid=["connect(s.w, s.a.o)", "connect(s.w, 3)"])
case('two-drivers', 'struct whole and field, two blocks', 'MultiWriterError', Mid=[W('b1', 's.st', 's.si'), W('b2', 's.st.f', 's.i[0:4]')])
case('two-drivers', 'struct field by block, whole by net', 'MultiWriterError', Mid=[W('b2', 's.st.f', 's.i[0:4]'), "connect(s.st, s.si)"])
case('two-drivers', 'struct field by net, whole by block', 'MultiWriterError', Mid=[W('b1', 's.st', 's.si'), "connect(s.st.g, s.i[0:4])"])
case('two-drivers', 'two different fields', None, Mid=[W('b1', 's.st.f', 's.i[0:4]'), "connect(s.st.g, s.i[4:8])"])
case('two-drivers', 'overlapping slices, two blocks', 'MultiWriterError', Mid=[W('b1', 's.w[0:5]', 's.i[0:5]'), W('b2', 's.w[4:8]', 's.i[0:4]')])
case('two-drivers', 'overlapping slices, block and net', 'MultiWriterError', Mid=[W('b1', 's.w[0:5]', 's.i[0:5]'), "connect(s.w[4:8], s.i[0:4])"])
case('two-drivers', 'overlapping slices, two nets', 'MultiWriterError', Mid=["connect(s.w[2:6], s.a.o[0:4])", "connect(s.w[4:8], s.i[0:4])"])
case('two-drivers', 'slice and whole, two blocks', 'MultiWriterError', Mid=[W('b1', 's.w'), W('b2', 's.w[4:8]', 's.i[0:4]')])
case('two-drivers', 'disjoint slices', None, Mid=[W('b1', 's.w[0:4]', 's.i[0:4]'), "connect(s.w[4:8], s.i[0:4])"])
case('two-drivers', 'same block twice', None, Mid=["@update\ndef b1():\n  s.w @= s.i\n  s.w @= s.i + 1"])
case('two-drivers', 'slice of a field and the field', 'MultiWriterError', Mid=[W('b1', 's.st.f', 's.i[0:4]'), W('b2', 's.st.f[0:2]', 's.i[0:2]')])

# the rule must hold for EVERY statement of a block, not only the first one touching a signal
for deco, good, bad, errcls in (('update', '@=', '<<=', 'UpdateBlockWriteError'), ('update_ff', '<<=', '@=', 'UpdateFFBlockWriteError')):
  for wrong in (bad, '='):
    case('operator', f"right then wrong ({wrong}) on one signal in @{deco}", errcls,
         Mid=[f"@{deco}\ndef blk():\n  s.w {good} s.i\n  if s.i[0]:\n    s.w {wrong} s.i + 1", "@update\ndef other(): s.o @= s.i"])
    case('operator', f"wrong ({wrong}) then right on one signal in @{deco}", errcls,
         Mid=[f"@{deco}\ndef blk():\n  s.w {wrong} s.i\n  if s.i[0]:\n    s.w {good} s.i + 1", "@update\ndef other(): s.o @= s.i"])
    case('operator', f"right on s.w, wrong ({wrong}) on s.t in @{deco}", errcls,
         Mid=[f"@{deco}\ndef blk():\n  s.w {good} s.i\n  s.t {wrong} s.i + 1", "@update\ndef other(): s.o @= s.i"])
  case('operator', f"two right assignments in @{deco}", None,
       Mid=[f"@{deco}\ndef blk():\n  s.w {good} s.i\n  if s.i[0]:\n    s.w {good} s.i + 1", "@update\ndef other(): s.o @= s.i"])

# writes made inside function helpers (s.func) count as writes of every block that reaches them
F_DRIVE = "@s.func\ndef drive(v): s.w @= v"
F_P0 = "@s.func\ndef path0(v): drive(v + 1)"
F_P1 = "@s.func\ndef path1(v): drive(v + 2)"
case('two-drivers', 'two blocks call one writing helper', 'MultiWriterError', Mid=[F_DRIVE, "@update\ndef b1(): drive(s.i)", "@update\ndef b2(): drive(s.i + 1)"])
case('two-drivers', 'two blocks reach one writing helper through two helpers', 'MultiWriterError',
     Mid=[F_DRIVE, F_P0, F_P1, "@update\ndef b1(): path0(s.i)", "@update\ndef b2(): path1(s.i)"])
case('two-drivers', 'block writes directly, another through a helper', 'MultiWriterError', Mid=[F_DRIVE, "@update\ndef b1(): s.w @= s.i", "@update\ndef b2(): drive(s.i + 1)"])
case('two-drivers', 'helper write and net', 'MultiWriterError', Mid=[F_DRIVE, "@update\ndef b1(): drive(s.i)", "connect(s.w, s.a.o)"])
case('two-drivers', 'one block reaches the helper over two paths', None, Mid=[F_DRIVE, F_P0, F_P1, "@update\ndef b1():\n  path0(s.i)\n  path1(s.i)"])
case('two-drivers', 'two helpers write different signals', None,
     Mid=[F_DRIVE, "@s.func\ndef drive_t(v): s.t @= v", "@update\ndef b1(): drive(s.i)", "@update\ndef b2(): drive_t(s.i)"])

# two drivers at nesting depth 2: the conflict is on the MIDDLE level (field of a field, slice of a field)
case('two-drivers', 'depth 2: block writes s.dp.p.f, net drives s.dp.p', 'MultiWriterError', Mid=[W('b1', 's.dp.p.f', 's.i[0:4]'), "connect(s.dp.p, s.si)"])
case('two-drivers', 'depth 2: block writes s.dp.q[0:4], net drives s.dp.q', 'MultiWriterError', Mid=[W('b1', 's.dp.q[0:4]', 's.i[0:4]'), "connect(s.dp.q, s.i)"])
case('two-drivers', 'depth 2: block writes s.dp.p.f, another block writes s.dp.p', 'MultiWriterError', Mid=[W('b1', 's.dp.p.f', 's.i[0:4]'), W('b2', 's.dp.p', 's.si')])
case('two-drivers', 'depth 2: block writes s.dp.p.f, net drives s.dp', 'MultiWriterError', Mid=[W('b1', 's.dp.p.f', 's.i[0:4]'), "connect(s.dp.p.g, s.i[4:8])", "connect(s.dp.q, s.i)", "@update\ndef b3(): s.dp @= Deep(s.si, s.i)"])
case('two-drivers', 'depth 2: child output drives s.dp.q, block writes s.dp.q[4:8]', 'MultiWriterError', Mid=[W('b1', 's.dp.q[4:8]', 's.i[0:4]'), "connect(s.dp.q, s.a.o)"])
case('two-drivers', 'depth 2: disjoint leaves, middle level only read', None,
     Mid=[W('b1', 's.dp.p.f', 's.i[0:4]'), "connect(s.dp.p.g, s.i[4:8])", "connect(s.dp.q, s.i)", "connect(s.st, s.dp.p)", "connect(s.t, s.dp.q)"])
case('two-drivers', 'depth 2: disjoint slices of a field, field read whole', None,
     Mid=[W('b1', 's.dp.q[0:4]', 's.i[0:4]'), "connect(s.dp.q[4:8], s.i[4:8])", "connect(s.t, s.dp.q)", "connect(s.dp.p, s.si)"])

# a sequential and a combinational block on nested parts of one signal
FF = lambda n, tgt, src='s.i': f"@update_ff\ndef {n}(): {tgt} <<= {src}"
case('two-drivers', 'ff block writes the wire, comb block a slice of it', 'MultiWriterError', Mid=[FF('f1', 's.w'), W('b2', 's.w[0:4]', 's.i[0:4]')])
case('two-drivers', 'ff block writes the struct, comb block a field', 'MultiWriterError', Mid=[FF('f1', 's.st', 's.si'), W('b2', 's.st.f', 's.i[0:4]')])
case('two-drivers', 'ff block writes the nested struct, comb block a leaf at depth 2', 'MultiWriterError', Mid=[FF('f1', 's.dp', 'Deep(s.si, s.i)'), W('b2', 's.dp.p.g', 's.i[0:4]')])
case('two-drivers', 'ff block writes the wire, net drives a slice of it', 'MultiWriterError', Mid=[FF('f1', 's.w'), "connect(s.w[4:8], s.i[0:4])"])
case('two-drivers', 'two ff blocks write one wire', 'MultiWriterError', Mid=[FF('f1', 's.w'), FF('f2', 's.w', 's.i + 1')])
case('two-drivers', 'two ff blocks, one writes through a helper', 'MultiWriterError', Mid=["@s.func\ndef ld(v): s.w <<= v", "@update_ff\ndef f1(): ld(s.i)", FF('f2', 's.w', 's.i + 1')])
case('two-drivers', 'two ff blocks through one helper', 'MultiWriterError', Mid=["@s.func\ndef ld(v): s.w <<= v", "@update_ff\ndef f1(): ld(s.i)", "@update_ff\ndef f2(): ld(s.i + 1)"])
case('two-drivers', 'one ff block through a helper, comb block elsewhere', None, Mid=["@s.func\ndef ld(v): s.w <<= v", "@update_ff\ndef f1(): ld(s.i)", W('b2', 's.t')])
case('two-drivers', 'ff block and comb block on different wires', None, Mid=[FF('f1', 's.w'), W('b2', 's.t')])

# a larger legal design exercising every rule at once
case('legal', 'everything legal at once', None,
     Mid=["connect(s.a.i, s.i)", "connect(s.b.i, s.a.o)", "connect(s.w, s.b.o)", "@update\ndef b1(): s.o @= s.w + s.t", "@update_ff\ndef b2(): s.t <<= s.a.o",
          "connect(s.st.f, s.i[0:4])", "@update\ndef b3(): s.st.g @= s.si.g"],
     Top_only=["connect(s.m.i, s.i)", "connect(s.n.i, s.m.o)", "connect(s.o, s.n.o)", "connect(s.m.si, s.sti)", "@update\ndef tb(): s.n.si @= Pt(s.i[0:4], s.i[4:8])"])


def orders(n, limit=None):
  limit = limit or int(os.environ.get('VERIF_ORDERS', '6'))      # thorough tier: 24
  ps = list(itertools.permutations(range(n)))
  if len(ps) <= limit: return ps
  step = len(ps) / limit
  out = [ps[int(i * step)] for i in range(limit)]
  if ps[-1] not in out: out[-1] = ps[-1]
  return out


def _indent(stmts):
  return "".join("".join("    " + l + "\n" for l in st.split("\n")) for st in stmts) or "    pass\n"


_mod = None
_index = []      # (family, name, order index, class name, expected, statements of Mid in this order)


def _build():
  global _mod
  if _mod is not None: return
  src = HDR
  k = 0
  for family, name, bodies, expected in CASES:
    mid = bodies['Mid']
    for oi, perm in enumerate(orders(len(mid))):
      b = dict(bodies); b['Mid'] = [mid[i] for i in perm]
      if oi % 2 == 1: b['Top'] = list(reversed(b['Top']))
      src += SKEL.format(k=k, G=_indent(b['G']), Leaf=_indent(b['Leaf']), Mid=_indent(b['Mid']), Top=_indent(b['Top']), G_DECL='', Leaf_DECL='', Mid_DECL='', Top_DECL='')
      _index.append((family, name, oi, f"Top_{k}", expected, b['Mid']))
      k += 1
  d = tempfile.mkdtemp(prefix='illegal_', dir=os.environ.get('VERIF_SCRATCH') or None)
  fn = os.path.join(d, 'verif_illegal_mod.py')
  with open(fn, 'w') as f: f.write(src)
  spec = importlib.util.spec_from_file_location('verif_illegal_mod', fn)
  _mod = importlib.util.module_from_spec(spec)
  sys.modules['verif_illegal_mod'] = _mod
  spec.loader.exec_module(_mod)


def index(): _build(); return list(_index)
def get(i): _build(); return getattr(_mod, _index[i][3])


def outcome(i):
  """elaborate case i on the real pymtl3; returns None or the name of the exception class"""
  import warnings; warnings.filterwarnings('ignore')
  try:
    top = get(i)(); top.elaborate()
    return None
  except Exception as e:
    return type(e).__name__
