"""Blocks with EXPLICITLY sized operands of different width under every operator kind (C10 converse clause): the
type checker must reject them, because simulating them raises on every path.  'mm:<i>' names are stable."""
import importlib.util
import os
import sys
import tempfile

HDR = '''from pymtl3 import *
K2 = b2(3)
K8 = b8(200)
@bitstruct
class S12:
  a: Bits4
  b: Bits8
'''
DECL = "KC = b2(2); KC4 = b4(9); s.x3 = InPort(Bits3); s.a = InPort(Bits8); s.b = InPort(Bits4); s.c = InPort(Bits1); s.st = InPort(S12); s.x2 = InPort(Bits2); s.out = OutPort(Bits8); s.out2 = OutPort(Bits2); s.out16 = OutPort(Bits16); s.ost = OutPort(S12)"


def bodies():
  B = []
  for op in ['+', '-', '*', '&', '|', '^']:
    B.append(f"s.out @= s.a {op} s.b")
    B.append(f"s.out @= s.a {op} zext(s.b, 6)")
    B.append(f"s.out @= (s.a {op} s.a) {op} s.b")
  for op in ['==', '!=', '<', '<=', '>', '>=']:
    B.append(f"s.out @= zext(s.a {op} s.b, 8)")
    B.append(f"s.out @= s.a & (s.a {op} s.a)")              # 8-bit operand with a 1-bit comparison result
    B.append(f"s.out @= (s.b {op} s.b) | s.a")
    B.append(f"s.out @= zext(s.a == (s.b {op} s.b), 8)")
  B += ["s.out @= s.a if s.c else s.b", "s.out @= s.b if s.c else s.a", "s.out @= (s.a if s.c else s.b) + 1",
        "s.out @= s.b", "s.out2 @= s.a", "s.out16 @= s.a", "s.out @= s.st", "s.out16 @= s.st", "s.ost @= s.a", "s.ost @= s.out16",
        "s.out[0:4] @= s.a", "s.out[0:4] @= s.x2", "s.out @= concat(s.a, s.b)", "s.out16 @= concat(s.a, s.b)",
        "s.out @= ~s.b", "s.out @= s.a + reduce_or(s.b)", "s.out2 @= s.x2 + s.c",
        "for i in range(6, 0, -2):\n        s.out2 @= s.x2 + i", "for i in range(0, 7, 2):\n        s.out2 @= s.x2 + i",
        "for i in range(5):\n        s.out2 @= s.x2 & i", "for i in range(8, 0, -4):\n        s.out2 @= s.x2 ^ i",
        "t = s.a + s.a\n      s.out @= t & s.b", "t = s.st\n      s.out @= t",
        # Bits-typed free variables (module-level and closure constants) are explicitly sized
        "s.out @= zext(s.x3 == K2, 8)", "s.out @= s.a + K2", "s.out @= K2", "s.out2 @= K8", "s.out @= s.a & KC", "s.out @= KC4", "s.out @= zext(s.b < KC, 8)",
        "s.out @= s.a if s.c else K2", "s.out2 @= s.x2 + K2", "s.out @= K8 + s.a", "s.out @= zext(s.x2 == KC, 8)",
        # temporaries that are re-assigned: the last assignment decides the width
        "t = 1\n      t = s.c\n      s.out @= t", "acc = 0\n      for i in range(4):\n        acc = acc ^ s.a[i]\n      s.out @= acc",
        "t = 0\n      t = s.b\n      s.out @= t", "t = 3\n      if s.c:\n        t = s.x2\n      s.out @= zext(t, 8)", "t = s.b\n      t = t + 1\n      s.out @= t",
        "t = 0\n      t = s.a\n      s.out @= t", "u = 1\n      u = s.c & s.c\n      s.out @= zext(u, 8) + u",
        # literal-only sub-expressions whose VALUE needs more bits than the explicitly sized operand next to them
        "s.out @= zext(s.b + (3*7), 8)", "s.out @= zext(s.b & (1 << 4), 8)", "s.out @= zext(s.b < (7 + 9), 8)", "s.out2 @= s.x2 + (2 + 2)",
        "s.out @= zext(s.x3 ^ (5 + 5), 8)", "s.out @= zext(s.b == (255 - 200), 8)",
        # a list of signals whose INTERIOR element has another width (first and last agree)
        "MIX:s.out @= s.mix[s.x2[0:2]]", "MIX:s.out @= s.mix[1] + 1", "MIX:s.out @= s.mix[0] & s.mix[1]", "MIX:s.out @= s.kmix[1]"]
  return B


_mod = None


def module():
  global _mod
  if _mod is None:
    src = HDR
    MIX = "; s.mix = [InPort(Bits8), InPort(Bits4), InPort(Bits8)]; s.kmix = [Bits8(1), Bits4(2), Bits8(3)]"
    for i, b in enumerate(bodies()):
      decl = DECL + (MIX if b.startswith('MIX:') else '')
      b = b[4:] if b.startswith('MIX:') else b
      src += f"\nclass M{i}(Component):\n  def construct(s):\n    {decl}\n    @update\n    def up():\n      {b}\n"
    d = tempfile.mkdtemp(prefix='mm_', dir=os.environ.get('VERIF_SCRATCH') or None)
    fn = os.path.join(d, 'verif_mm_mod.py')
    with open(fn, 'w') as f: f.write(src)
    spec = importlib.util.spec_from_file_location('verif_mm_mod', fn)
    _mod = importlib.util.module_from_spec(spec)
    sys.modules['verif_mm_mod'] = _mod
    spec.loader.exec_module(_mod)
  return _mod


def names(): return [f"mm:{i}" for i in range(len(bodies()))]
def get(name): return getattr(module(), f"M{int(name.split(':')[1])}")
def describe(name): return bodies()[int(name.split(':')[1])]
