"""SymByteArray: stand-in for the bytearray behind MagicMemoryFL.  A concrete base image plus an overlay of
bytes that hold symbolic values.  Addresses that reach it symbolically are concretised by forking (harnesses keep
them in small windows); stored bytes may be symbolic."""
from . import core


class SymByteArray:
  def __init__(s, base):
    s.base = bytearray(base)
    s.over = {}

  def __len__(s): return len(s.base)

  def _addr(s, a):
    if core.is_sym(a): return a.__index__()
    return int(a)

  def __getitem__(s, a):
    if isinstance(a, slice):
      return bytes(s[i] if not core.is_sym(s[i]) else 0 for i in range(*a.indices(len(s.base))))
    a = s._addr(a)
    if a in s.over: return s.over[a]
    return s.base[a]

  def __setitem__(s, a, v):
    if isinstance(a, slice):
      idx = range(*a.indices(len(s.base)))
      for i, b in zip(idx, v):
        s.over.pop(i, None); s.base[i] = b
      return
    a = s._addr(a)
    if hasattr(v, '_uint'): v = v._uint          # a Bits value
    if core.is_sym(v):
      s.over[a] = v
    else:
      s.over.pop(a, None); s.base[a] = int(v) & 255

  def word(s, a):
    """little-endian 32-bit value at concrete address a as python int or SymInt"""
    r = 0
    for i in reversed(range(4)): r = (r << 8) + s[a + i]
    return r
