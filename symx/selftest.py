"""Differential self-test of the proxy ints: every operator on concrete operand pairs, computed
(a) by CPython on ints and (b) by SymInt on *symbolic* operands pinned to the same values by
the path condition (so the symbolic code path is the one exercised), then evaluated in a model.
Serval-style validation of the interpreter by pushing test inputs through it.
"""
import itertools
import operator
import random

import z3

from . import core
from .core import Explorer, SymInt, SymBool, fresh_signed

OPS = {
  'add': operator.add, 'sub': operator.sub, 'mul': operator.mul, 'and': operator.and_, 'or': operator.or_,
  'xor': operator.xor, 'floordiv': operator.floordiv, 'mod': operator.mod, 'lshift': operator.lshift,
  'rshift': operator.rshift, 'eq': operator.eq, 'ne': operator.ne, 'lt': operator.lt, 'le': operator.le,
  'gt': operator.gt, 'ge': operator.ge,
}
UN = {'neg': operator.neg, 'invert': operator.invert, 'abs': abs, 'bit_length': lambda x: x.bit_length(),
      'bool': bool, 'mask8': lambda x: x & 0xff, 'mask1': lambda x: x & 1, 'maskodd': lambda x: x & 0x5a,
      'shl3': lambda x: x << 3, 'shr2': lambda x: x >> 2, 'rsub': lambda x: 5 - x, 'rshl': lambda x: 1 << (x & 7)}


def interesting(rng, n):
  vals = {0, 1, -1, 2, -2, 3, 7, 8, -8, 255, 256, -256, 2**31 - 1, 2**31, -2**31, 2**32, 2**63, -2**63, 2**64 - 1, 2**64 + 1}
  while len(vals) < n:
    k = rng.choice([1, 2, 4, 8, 16, 33, 64, 70])
    vals.add(rng.randrange(-2**k, 2**k))
  return sorted(vals)


def _concrete(x, model):
  if isinstance(x, SymBool): return z3.is_true(model.eval(x.b, model_completion=True))
  if isinstance(x, SymInt): return model.eval(x.e, model_completion=True).as_signed_long()
  return x


def run(nvals=24, seed=0):
  """returns (number of vectors, list of mismatches)"""
  rng = random.Random(seed)
  vals = interesting(rng, nvals)
  bad = []; n = 0
  W = 80
  a, av = fresh_signed('sa', W); b, bv = fresh_signed('sb', W)
  for A, B in itertools.product(vals, vals):
    for name, f in OPS.items():
      if name == 'lshift' and not (0 <= B <= 70): continue
      if name == 'rshift' and B < 0: continue
      try: want = f(A, B)
      except ZeroDivisionError: want = 'ZeroDivisionError'
      ex = Explorer(base_pc=[av == A, bv == B])
      got = None
      for pc, res, exc in ex.paths(lambda: f(a, b)):
        if exc is not None: got = type(exc).__name__
        else:
          s = z3.Solver(); s.add(av == A, bv == B, *pc); assert s.check() == z3.sat
          got = _concrete(res, s.model())
      n += 1
      if got != want or (type(want) is bool) != (type(got) is bool):
        bad.append((name, A, B, want, got))
  for A in vals:
    for name, f in UN.items():
      want = f(A)
      ex = Explorer(base_pc=[av == A])
      got = None
      for pc, res, exc in ex.paths(lambda: f(a)):
        if exc is not None: got = type(exc).__name__
        else:
          s = z3.Solver(); s.add(av == A, *pc); assert s.check() == z3.sat
          got = _concrete(res, s.model())
      n += 1
      if got != want: bad.append((name, A, None, want, got))
  # constants only (the folded path)
  for A, B in itertools.product(vals[::2], vals[::3]):
    for name, f in OPS.items():
      if name == 'lshift' and not (0 <= B <= 70): continue
      if name == 'rshift' and B < 0: continue
      if name in ('floordiv', 'mod') and B == 0: continue
      want = f(A, B)
      ex = Explorer()
      for pc, res, exc in ex.paths(lambda: f(core.lift(A), B)):
        s = z3.Solver(); s.check()
        got = _concrete(res, s.model()) if exc is None else type(exc).__name__
      n += 1
      if got != want: bad.append(('const-' + name, A, B, want, got))
  return n, bad


if __name__ == '__main__':
  import sys, time
  t = time.time()
  n, bad = run(int(sys.argv[1]) if len(sys.argv) > 1 else 24)
  print(n, 'vectors', len(bad), 'mismatches', round(time.time() - t, 1), 's')
  for x in bad[:20]: print(x)
  sys.exit(1 if bad else 0)
