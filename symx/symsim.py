"""symx.symsim -- symbolic simulation through the REAL pymtl3 passes.

SymSim elaborates a component, applies the real GenDAGPass + scheduling pass + PrepareSimPass and
then treats every distinct Bits leaf object of the locked-in simulation as a *cell* whose payload
can be made symbolic.  Update blocks are (optionally) wrapped so that each block is explored on
all its paths and the per-path results are merged with ite -- block-level fork-and-merge.
"""
import z3

from . import core, pymtl as sp
from .core import Explorer, SymInt, Unsupported, lift, _sx


class Cell:
  __slots__ = ('name', 'obj', 'nbits', 'dbuf', 'names')

  def __init__(s, name, obj, dbuf):
    s.name = name; s.obj = obj; s.nbits = obj.nbits; s.dbuf = dbuf; s.names = [name]


def _ite_merge(ok, vals):
  """ite over path conditions of per-path payloads (python ints or SymInts)"""
  v0 = vals[0]
  if all(v is v0 for v in vals): return v0
  if all(type(v) is int for v in vals) and all(v == v0 for v in vals): return v0
  ls = [lift(v) for v in vals]
  w = max(l.w for l in ls)
  e = _sx(ls[-1].e, w)
  for (pc, _), l in zip(reversed(ok[:-1]), reversed(ls[:-1])):
    e = z3.If(z3.And(*pc) if pc else z3.BoolVal(True), _sx(l.e, w), e)
  return SymInt(z3.simplify(e), all(l.nn for l in ls))


class VarMap(dict):
  """{canonical cell name: z3 variable}; lookups also accept any alias (net members share one cell)"""
  def __init__(s, sim): super().__init__(); s.sim = sim
  def __missing__(s, k):
    c = s.sim.by_name.get(k)
    if c is None or not dict.__contains__(s, c.name): raise KeyError(k)
    return dict.__getitem__(s, c.name)


def _groups():
  from pymtl3.passes.PassGroups import DefaultPassGroup, SimpleSimPass
  from pymtl3.passes.mamba.PassGroups import UnrollSim, HeuTopoUnrollSim, Mamba2020

  def default(top): top.elaborate(); top.apply(DefaultPassGroup())
  def simple(top): top.elaborate(); top.apply(SimpleSimPass())
  return {'default': default, 'dynamic': default, 'simple': simple,
          'unroll': lambda top: top.apply(UnrollSim(print_line_trace=False)),
          'heutopo': lambda top: top.apply(HeuTopoUnrollSim(print_line_trace=False)),
          'mamba': lambda top: top.apply(Mamba2020(print_line_trace=False))}


GROUP_NAMES = ('default', 'simple', 'unroll', 'heutopo', 'mamba')


class SymSim:
  """group: which REAL pass group builds the simulator ('default' = DefaultPassGroup with DynamicSchedulePass,
  'simple' = SimpleSimPass, 'unroll', 'heutopo', 'mamba' = the three Mamba groups).  With merge=True every
  function that a tick/eval function (or a Mamba meta block) is generated from is wrapped for block-level
  fork-and-merge; the schedules themselves (top._sched.*) stay untouched."""

  def __init__(s, top, group='default', merge=True, block_path_budget=4096, extra_modules=(), sched=None, nowrap=()):
    from pymtl3.passes.sim.SimpleTickPass import SimpleTickPass
    from pymtl3.passes.mamba.UnrollSimPass import UnrollSimPass
    from pymtl3.passes.mamba.Mamba2020Pass import Mamba2020Pass
    s.Bits = sp.setup(extra_modules)
    s.top = top
    s.merge = merge
    s.group = sched or group
    s.block_path_budget = block_path_budget
    s.stats = dict(blk_calls=0, blk_paths=0)
    s.logging = False; s.call_log = []
    s.nowrap = set(nowrap)        # names of scheduled functions with side effects outside the cells (file output): run as they are
    saved = (SimpleTickPass.__dict__['gen_tick_function'], UnrollSimPass.__dict__['gen_tick_function'], Mamba2020Pass.compile_meta_block)
    if merge:
      o1, o2, o3 = saved[0].__func__, saved[1].__func__, saved[2]
      SimpleTickPass.gen_tick_function = staticmethod(lambda schedule: o1([s.wrap(f) for f in schedule]))
      UnrollSimPass.gen_tick_function = staticmethod(lambda funclist: o2([s.wrap(f) for f in funclist]))
      Mamba2020Pass.compile_meta_block = lambda self, blocks: o3(self, [s.wrap(b, keep=self) for b in blocks])
    try:
      if callable(s.group): s.group(top)          # e.g. an already elaborated (replaced) design: apply the pass group only
      else: _groups()[s.group](top)
    finally:
      SimpleTickPass.gen_tick_function, UnrollSimPass.gen_tick_function, Mamba2020Pass.compile_meta_block = saved
    s.collect_cells()

  # -- cells ------------------------------------------------------------------------
  def collect_cells(s):
    from pymtl3.dsl.Connectable import Const
    from pymtl3.datatypes.bitstructs import is_bitstruct_inst
    top = s.top
    Bits = s.Bits
    s._is_bs = is_bitstruct_inst
    const_ids = set()

    def cids(v):
      if isinstance(v, Bits): const_ids.add(id(v))
      elif isinstance(v, list):
        for x in v: cids(x)
      elif is_bitstruct_inst(v):
        for f in v.__bitstruct_fields__: cids(getattr(v, f))
    for writer, net in top.get_all_value_nets():
      if isinstance(writer, Const): cids(writer._dsl.const)
    s.const_ids = const_ids
    by_id = {}
    s.sig_value = {}

    def collect(name, val, dbuf):
      if isinstance(val, Bits):
        if id(val) in const_ids: return
        c = by_id.get(id(val))
        if c is None: by_id[id(val)] = Cell(name, val, dbuf)
        else:
          c.names.append(name)
          if name < c.name: c.name = name
          c.dbuf = c.dbuf or dbuf
      elif isinstance(val, list):
        for i, x in enumerate(val): collect(f"{name}[{i}]", x, dbuf)
      elif is_bitstruct_inst(val):
        for f in val.__bitstruct_fields__: collect(f"{name}.{f}", getattr(val, f), dbuf)
    for sig, (host, key, is_list, val) in top._sim.signal_object_mapping.items():
      s.sig_value[repr(sig)] = val
      collect(repr(sig), val, sig._dsl.needs_double_buffer)
    s.cells = sorted(by_id.values(), key=lambda c: c.name)
    s.by_name = {c.name: c for c in s.cells}
    s.by_obj = by_id
    for c in s.cells:
      for n in c.names: s.by_name.setdefault(n, c)

  def cell(s, name): return s.by_name[name]

  def snapshot(s):
    return [(c.obj._uint, getattr(c.obj, '_next', None)) for c in s.cells]

  def restore(s, snap):
    for c, (u, nx) in zip(s.cells, snap):
      c.obj._uint = u
      if nx is not None: c.obj._next = nx

  def symbolic_state(s, prefix='', only=None, keep=()):
    """every cell gets a fresh variable (named after the cell); double-buffered cells get _next == _uint,
    the invariant the real simulator maintains at every cycle boundary"""
    vars_ = VarMap(s)
    for c in s.cells:
      if only is not None and c.name not in only: continue
      if c.name in keep: continue
      v = z3.BitVec(prefix + c.name, c.nbits)
      vars_[c.name] = v
      c.obj._uint = core.from_bv(v)
      if c.dbuf: c.obj._next = c.obj._uint
    return vars_

  def zero_state(s):
    for c in s.cells:
      c.obj._uint = 0
      if c.dbuf: c.obj._next = 0

  def set(s, name, e):
    """drive a cell with a z3 term or python int"""
    c = s.by_name[name]
    c.obj._uint = e if type(e) is int else core.from_bv(e)

  def bv(s, name_or_obj):
    o = s.by_name[name_or_obj].obj if isinstance(name_or_obj, str) else name_or_obj
    return z3.simplify(core.ubv(o._uint, o.nbits))

  def next_bv(s, name):
    o = s.by_name[name].obj
    return z3.simplify(core.ubv(o._next, o.nbits))

  def value_bv(s, val):
    """packed n-bit term of a signal value (Bits, bitstruct or list), by the specified layout"""
    if isinstance(val, s.Bits): return core.ubv(val._uint, val.nbits)
    if isinstance(val, list):
      parts = [s.value_bv(x) for x in reversed(val)]
      return z3.Concat(*parts) if len(parts) > 1 else parts[0]
    parts = [s.value_bv(getattr(val, f)) for f in val.__bitstruct_fields__]
    return z3.Concat(*parts) if len(parts) > 1 else parts[0]

  def value_nbits(s, val):
    if isinstance(val, s.Bits): return val.nbits
    if isinstance(val, list): return sum(s.value_nbits(x) for x in val)
    return sum(s.value_nbits(getattr(val, f)) for f in val.__bitstruct_fields__)

  def drive(s, sigrepr, e):
    """drive a signal (Bits, bitstruct or list) from a packed z3 term / python int, by the specified layout"""
    val = s.sig_value[sigrepr]
    n = s.value_nbits(val)
    if type(e) is int: e = z3.BitVecVal(e, n)
    assert e.size() == n, (sigrepr, e.size(), n)

    def rec(v, hi):   # assigns bits [hi-width, hi) of e; returns new hi
      if isinstance(v, s.Bits):
        lo = hi - v.nbits
        t = z3.simplify(z3.Extract(hi - 1, lo, e))
        v._uint = t.as_long() if z3.is_bv_value(t) else core.from_bv(t)
        return lo
      if isinstance(v, list):
        for x in reversed(v): hi = rec(x, hi)
        return hi
      for f in v.__bitstruct_fields__: hi = rec(getattr(v, f), hi)
      return hi
    rec(val, n)

  def sig_bv(s, sigrepr):
    return z3.simplify(s.value_bv(s.sig_value[sigrepr]))

  def state_terms(s):
    return {c.name: s.bv(c.obj) for c in s.cells}

  # -- block-level fork and merge ------------------------------------------------------
  def wrap(s, blk, keep=None):
    if getattr(blk, '__name__', '') in s.nowrap: return blk
    def wrapper():
      if s.logging: s.call_log.append(blk)
      outer = Explorer.cur
      if outer is None: return blk()
      s.stats['blk_calls'] += 1
      pre = s.snapshot()
      sub = Explorer(base_pc=outer.base + outer.pc, max_paths=s.block_path_budget)
      sub.deadline = outer.deadline

      def body():
        s.restore(pre); blk(); return s.snapshot()
      results = list(sub.paths(body))
      s.stats['blk_paths'] += len(results)
      s.restore(pre)
      ok = [(pc, res) for pc, res, exc in results if exc is None]
      for pc, res, exc in results:
        if exc is not None:
          # a path of the block raises: the outer run forks on "is this the path taken?"
          if outer.branch(z3.And(*pc) if pc else z3.BoolVal(True)): raise exc
      if not ok: raise Unsupported("block has no returning path")
      if len(ok) == 1:
        s.restore(ok[0][1]); return
      merged = []
      for i in range(len(s.cells)):
        us = [r[i][0] for _, r in ok]; ns = [r[i][1] for _, r in ok]
        merged.append((_ite_merge(ok, us), _ite_merge(ok, ns) if ns[0] is not None else None))
      s.restore(merged)
    wrapper.__name__ = getattr(blk, '__name__', 'blk')
    wrapper.__wrapped_blk__ = blk
    if keep is not None and blk in getattr(keep, 'branchiness', {}):     # Mamba annotates meta-block source per block
      keep.branchiness[wrapper] = keep.branchiness[blk]; keep.only_loop_at_top[wrapper] = keep.only_loop_at_top[blk]
    return wrapper

  def executed_order(s, what='eval'):
    """the blocks actually called by one real sim_eval_combinational()/sim_tick() (concrete run from the zero state)"""
    s.zero_state()
    s.call_log = []; s.logging = True
    try:
      (s.top.sim_eval_combinational if what == 'eval' else s.top.sim_tick)()
    finally:
      s.logging = False
    return list(s.call_log)

  def summarize(s, blk, vars_=None):
    """f_b: run one (raw) block from the fully symbolic state; returns (vars, {cell: term}, raised: z3 Bool)"""
    ex = Explorer(max_paths=s.block_path_budget)
    out = {}

    def body():
      v = s.symbolic_state()
      blk()
      return v, s.snapshot()
    results = list(ex.paths(body))
    ok = [(pc, res[1]) for pc, res, exc in results if exc is None]
    vars_ = results[0][1][0] if results[0][2] is None else None
    raised = z3.Or(*[z3.And(*pc) if pc else z3.BoolVal(True) for pc, res, exc in results if exc is not None]) \
        if any(exc is not None for _, _, exc in results) else z3.BoolVal(False)
    if vars_ is None:
      vars_ = {c.name: z3.BitVec(c.name, c.nbits) for c in s.cells}
    terms = {}
    nexts = {}
    for i, c in enumerate(s.cells):
      if ok:
        u = _ite_merge(ok, [r[i][0] for _, r in ok])
        terms[c.name] = z3.simplify(core.ubv(u, c.nbits))
        if c.dbuf:
          nx = _ite_merge(ok, [r[i][1] for _, r in ok])
          nexts[c.name] = z3.simplify(core.ubv(nx, c.nbits))
      else:
        terms[c.name] = vars_[c.name]
    return vars_, terms, nexts, z3.simplify(raised), len(results)
