"""Fork-mode exploration: a truth test with two feasible outcomes calls os.fork(); the child continues with
one outcome, the parent waits and then continues with the other.  Every path runs from the very same
process state (no re-execution, so harness construction need not be replay-deterministic).  Each leaf
process judges its own path with `leaf(pc, result, exc)` and appends one JSON record to a file that the
root collects.  Sequential depth-first; z3 contexts survive fork (single-threaded)."""
import json
import os
import sys
import tempfile
import time

import z3

from . import core
from .core import Explorer, Unsupported, BudgetExceeded, STATS


class ForkExplorer(Explorer):
  def __init__(s, base_pc=(), leaf=None, max_paths=20000, timeout_s=None, **kw):
    super().__init__(base_pc, max_paths=max_paths, timeout_s=timeout_s, **kw)
    s.leaf = leaf
    s.root = os.getpid()
    fd, s.out = tempfile.mkstemp(prefix='forkx_', suffix='.jsonl', dir=os.environ.get('VERIF_SCRATCH') or None)
    os.close(fd)
    s.child_failed = False

  def _count_paths(s):
    try:
      with open(s.out) as f: return sum(1 for _ in f)
    except OSError:
      return 0

  def _fork(s):
    if s._count_paths() >= s.max_paths: raise BudgetExceeded(f"more than {s.max_paths} paths (fork mode)")
    if s.deadline is not None and time.time() > s.deadline: raise BudgetExceeded("fork-mode wall-clock budget exceeded")
    sys.stdout.flush(); sys.stderr.flush()
    pid = os.fork()
    if pid == 0:
      STATS.reset()
      return True
    _, st = os.waitpid(pid, 0)
    if st != 0: s.child_failed = True
    return False

  def branch(s, cond):
    c = z3.simplify(cond)
    if z3.is_true(c): return True
    if z3.is_false(c): return False
    t = s.feasible(c); f = s.feasible(z3.Not(c))
    if not t and not f: raise Unsupported("infeasible path condition")
    s.pos += 1
    s._note_decision()
    if t and f:
      if s._fork():               # child: the False side
        s.pc.append(z3.Not(c)); return False
      s.pc.append(c); return True
    s.pc.append(c if t else z3.Not(c))
    return t

  def concretise(s, e):
    e = z3.simplify(e)
    if z3.is_bv_value(e): return e.as_signed_long()
    vals = []; blocked = []
    while s.feasible(*blocked):
      x = s.model().eval(e, model_completion=True).as_signed_long()
      vals.append(x); blocked.append(e != x)
      STATS.concretisations += 1
      if len(vals) > s.max_concretisations: raise BudgetExceeded("too many concretisations (fork mode)")
    if not vals: raise Unsupported("infeasible path condition")
    vals.sort()
    for v in vals[:-1]:
      if s._fork():               # child takes value v
        s.pc.append(z3.simplify(e == v)); return v
      s.pc.append(z3.simplify(e != v))
    s.pc.append(z3.simplify(e == vals[-1]))
    return vals[-1]

  def run(s, fn):
    """run fn() on all paths; returns the list of leaf records (only in the root process)"""
    prev = Explorer.cur; Explorer.cur = s; s.pc = []; s.pos = 0
    res = exc = None
    rec = None
    try:
      try:
        res = fn()
      except Unsupported as e:
        rec = {'error': f"{type(e).__name__}: {e}"}
      except Exception as e:
        exc = e
      if rec is None:
        try:
          rec = s.leaf(list(s.pc), res, exc)
        except Exception as e:   # noqa
          import traceback
          rec = {'error': f"leaf failed: {type(e).__name__}: {e}", 'trace': traceback.format_exc()[-1500:]}
      rec['_stats'] = STATS.as_dict()
      with open(s.out, 'a') as f: f.write(json.dumps(rec, default=str) + "\n")
    finally:
      Explorer.cur = prev
      if os.getpid() != s.root:
        sys.stdout.flush(); sys.stderr.flush()
        os._exit(0)
    recs = [json.loads(l) for l in open(s.out)]
    os.unlink(s.out)
    if s.child_failed: recs.append({'error': 'a forked path process exited abnormally'})
    return recs
