"""symx.core -- symbolic Python ints (exact, width-tracked z3 bit-vectors) and a
depth-first path explorer that re-executes the REAL code under test.

A SymInt holds a z3 bit-vector term `e` of width `w`, read as a two's
complement number.  Invariant: the mathematical value fits in `w` bits, so
no operation ever wraps.  `nn` is a syntactic "known non-negative" flag
(sign bit is 0 on every model); it is only used to pick the unsigned
division operators.  SymInt is deliberately NOT a subclass of int.
"""
import builtins
import os
import time

import z3

_int = builtins.int
_isinstance = builtins.isinstance

MAXW = 4200


class Unsupported(Exception):
  """The engine cannot continue soundly (-> inconclusive, never pass/fail)."""


class BudgetExceeded(Unsupported):
  pass


# ---------------------------------------------------------------------------
# statistics shared by all explorers of a process
# ---------------------------------------------------------------------------
class Stats:
  def __init__(s):
    s.reset()

  def reset(s):
    s.solver_checks = 0
    s.solver_s = 0.0
    s.paths = 0
    s.decisions = 0
    s.concretisations = 0
    s.max_decisions_on_a_path = 0
    s.cross_ok = 0
    s.cross_unknown = 0

  def as_dict(s):
    return dict(solver_checks=s.solver_checks, solver_s=round(s.solver_s, 3), paths=s.paths,
                decisions=s.decisions, concretisations=s.concretisations,
                max_decisions_on_a_path=s.max_decisions_on_a_path, cvc5_confirmed_unsat=s.cross_ok, cvc5_no_answer=s.cross_unknown)


STATS = Stats()


# ---------------------------------------------------------------------------
# Explorer
# ---------------------------------------------------------------------------
FIRST_TRY_MS = 4000


class _Frozen:
  """keeps the model of a solver that has been discarded"""
  def __init__(s, mdl): s.mdl = mdl
  def model(s): return s.mdl
  def reason_unknown(s): return ''


def _pure_qfbv(assertions):
  """True iff every assertion lies in QF_BV (no arrays, no uninterpreted functions, no integers)"""
  try:
    g = z3.Goal(); g.add(*assertions)
    return z3.Probe('is-qfbv')(g) == 1.0
  except z3.Z3Exception:
    return False


def robust_check(assertions, timeout_ms, want_model=False):
  """second opinion on a query the incremental solver gave up on: a FRESH default solver with the full budget (the
  incremental context is what is slow, not the query); only if that is undecided too, and only for pure bit-vector
  queries, a bit-blasting solver.  (SolverFor('QF_BV') on a query with ARRAYS answers 'sat' for unsatisfiable
  formulas -- found the hard way, see DESIGN 12 -- so it is never given one.)
  Returns a z3 check result (and the solver when want_model)."""
  last = None
  makers = [z3.Solver]
  if _pure_qfbv(assertions): makers.append(lambda: z3.SolverFor('QF_BV'))
  for mk in makers:
    try:
      s2 = mk(); s2.set('timeout', timeout_ms); s2.add(*assertions)
      r = s2.check(); last = s2
    except z3.Z3Exception:
      continue
    if r != z3.unknown:
      return (r, s2) if want_model else r
  return (z3.unknown, last) if want_model else z3.unknown


class Explorer:
  """DFS over the feasible paths of a deterministic function by re-execution."""
  cur = None

  def __init__(s, base_pc=(), max_paths=100000, max_decisions=2000, timeout_s=None, solver_timeout_ms=120000):
    s.solver = z3.Solver()
    s.solver_timeout_ms = solver_timeout_ms
    s.solver.set('timeout', min(solver_timeout_ms, FIRST_TRY_MS))
    s.base = list(base_pc)
    s.trail = []   # entries: [taken, other_feasible, flipped, cond, value]
    s.pos = 0
    s.pc = []
    s.max_paths = max_paths
    s.max_decisions = max_decisions
    s.deadline = None if timeout_s is None else time.time() + timeout_s
    s.npaths = 0
    s.nconc = 0
    s.max_concretisations = 3000

  # -- solver ----------------------------------------------------------------
  def feasible(s, *conds):
    t0 = time.time()
    r = s.solver.check(*s.base, *s.pc, *conds)
    s._last = s.solver
    if r == z3.unknown:
      # the incremental SMT core is occasionally erratic on bit-vector path conditions (the run time depends on
      # the internal term order); a fresh bit-blasting solver decides the same query robustly
      r, s._last = robust_check([*s.base, *s.pc, *conds], s.solver_timeout_ms, want_model=True)
      STATS.robust_retries = getattr(STATS, 'robust_retries', 0) + 1
    dt = time.time() - t0
    STATS.solver_s += dt
    STATS.solver_checks += 1
    if dt > 0.5 and s._last is s.solver and r != z3.unknown:
      # every assumption ever checked stays internalised in the incremental context; when that slows the
      # queries down, start over with a fresh context (the path condition is passed as assumptions anyway)
      mdl = s.solver.model() if r == z3.sat else None
      s.solver = z3.Solver(); s.solver.set('timeout', min(s.solver_timeout_ms, FIRST_TRY_MS))
      s._last = _Frozen(mdl)
      STATS.solver_resets = getattr(STATS, 'solver_resets', 0) + 1
    if r == z3.unknown:
      raise Unsupported("solver returned unknown on a feasibility query: " + (s._last or s.solver).reason_unknown())
    return r == z3.sat

  def model(s):
    return s._last.model()

  # -- decisions ---------------------------------------------------------------
  def _note_decision(s):
    STATS.decisions += 1
    if s.pos > s.max_decisions:
      raise BudgetExceeded(f"more than {s.max_decisions} decisions on one path (unwinding bound)")
    if s.deadline is not None and time.time() > s.deadline:
      raise BudgetExceeded("explorer wall-clock budget exceeded")

  def branch(s, cond):
    c = z3.simplify(cond)
    if z3.is_true(c): return True
    if z3.is_false(c): return False
    if s.pos < len(s.trail):
      ent = s.trail[s.pos]
      if not ent[3].eq(c):
        # z3.simplify orders AC arguments by internal ids, so a re-built term can differ structurally from
        # the recorded one; accept it iff it is equivalent under the path condition (one solver call)
        if ent[3].sort() != c.sort() or s.feasible(ent[3] != c):
          raise Unsupported("nondeterministic replay (condition differs from the recorded one)")
        c = ent[3]
      taken = ent[0]
    else:
      t = s.feasible(c)
      f = s.feasible(z3.Not(c))
      if t and f:   ent = [True, True, False, c, None, None]
      elif t:       ent = [True, False, False, c, None, None]
      elif f:       ent = [False, False, False, c, None, None]
      else: raise Unsupported("infeasible path condition")
      s.trail.append(ent)
      taken = ent[0]
    s.pos += 1
    s._note_decision()
    s.pc.append(c if taken else z3.Not(c))
    return taken

  def concretise(s, e):
    """return a concrete python int for bit-vector term e (signed), forking over all feasible values.
    The feasible values are enumerated once (solver + blocking clauses) and visited in ascending order, so
    that re-executions -- and re-explorations of the same block by an outer explorer -- are deterministic."""
    e = z3.simplify(e)
    if z3.is_bv_value(e):
      return e.as_signed_long()
    vals = None
    j = 0
    while True:
      if s.pos < len(s.trail):
        ent = s.trail[s.pos]
        if ent[4] is None: raise Unsupported("nondeterministic replay (expected a concretisation)")
        vals = ent[5]
        v, c, taken = ent[4], ent[3], ent[0]
      else:
        if vals is None:
          vals = []
          blocked = []
          while True:
            if not s.feasible(*blocked): break
            x = s.model().eval(e, model_completion=True).as_signed_long()
            vals.append(x); blocked.append(e != x)
            STATS.concretisations += 1
            s.nconc += 1
            if s.nconc > s.max_concretisations:
              raise BudgetExceeded(f"more than {s.max_concretisations} concretisations (a symbolic value reached a C boundary "
                                   "on a large domain; enumeration is not this technique)")
          if not vals: raise Unsupported("infeasible path condition")
          vals.sort()
          j = 0
        v = vals[j]
        c = z3.simplify(e == v)
        ent = [True, j + 1 < len(vals), False, c, v, vals]
        s.trail.append(ent)
        taken = True
      s.pos += 1
      s._note_decision()
      s.pc.append(c if taken else z3.Not(c))
      if taken: return v
      j = vals.index(v) + 1

  # -- driver ------------------------------------------------------------------
  def paths(s, fn):
    """Yield (pc, result, exc) for every feasible path of fn()."""
    while True:
      s.pos = 0; s.pc = []
      prev = Explorer.cur; Explorer.cur = s
      res = exc = None
      try:
        res = fn()
      except Unsupported:
        raise
      except Exception as e:      # only Exception: engine control flow derives from BaseException
        exc = e
      finally:
        Explorer.cur = prev
      s.npaths += 1
      STATS.paths += 1
      STATS.max_decisions_on_a_path = max(STATS.max_decisions_on_a_path, s.pos)
      yield list(s.pc), res, exc
      if s.npaths >= s.max_paths:
        # are there unexplored alternatives left?
        if any(t[1] and not t[2] for t in s.trail):
          raise BudgetExceeded(f"more than {s.max_paths} paths")
      while s.trail and not (s.trail[-1][1] and not s.trail[-1][2]):
        s.trail.pop()
      if not s.trail: return
      s.trail[-1][0] = not s.trail[-1][0]
      s.trail[-1][2] = True


def branch(cond):
  if Explorer.cur is None: raise Unsupported("symbolic branch outside an explorer")
  return Explorer.cur.branch(cond)


def current():
  if Explorer.cur is None: raise Unsupported("no active explorer")
  return Explorer.cur


def assume(cond):
  """restrict the current path: returns normally only on the side where cond holds"""
  if isinstance(cond, SymBool): cond = cond.b
  if not branch(cond):
    raise PathPruned()


class PathPruned(Exception):
  """raised by assume() on the side that violates the assumption"""


# ---------------------------------------------------------------------------
# SymBool / SymInt
# ---------------------------------------------------------------------------
def _sx(e, w):
  return e if e.size() == w else z3.SignExt(w - e.size(), e)


def _zx(e, w):
  if e.size() == w: return e
  if e.size() < w: return z3.ZeroExt(w - e.size(), e)
  return z3.Extract(w - 1, 0, e)


_B1 = z3.BitVecVal(1, 2)
_B0 = z3.BitVecVal(0, 2)


class SymBool:
  __slots__ = ('b',)
  # Python-level type tests (`x.__class__ is int`, builtin isinstance) see the type the proxy stands for;
  # C-level consumers are not fooled and must go through __index__ (concretise by fork).
  __class__ = property(lambda s: bool)

  def __init__(s, b): s.b = b
  def __bool__(s): return branch(s.b)
  def as_int(s): return SymInt(z3.If(s.b, _B1, _B0), True)

  def __and__(s, o):
    if type(o) is SymBool: return SymBool(z3.And(s.b, o.b))
    if type(o) is bool: return s if o else False
    return s.as_int() & o
  __rand__ = __and__

  def __or__(s, o):
    if type(o) is SymBool: return SymBool(z3.Or(s.b, o.b))
    if type(o) is bool: return True if o else s
    return s.as_int() | o
  __ror__ = __or__

  def __xor__(s, o):
    if type(o) is SymBool: return SymBool(z3.Xor(s.b, o.b))
    if type(o) is bool: return SymBool(z3.Not(s.b)) if o else s
    return s.as_int() ^ o
  __rxor__ = __xor__

  def __invert__(s): return ~s.as_int()
  def __eq__(s, o):
    if type(o) is SymBool: return SymBool(s.b == o.b)
    return s.as_int() == o
  def __ne__(s, o):
    if type(o) is SymBool: return SymBool(s.b != o.b)
    return s.as_int() != o
  def __hash__(s): raise Unsupported("hash of a symbolic value")
  def __index__(s): return 1 if branch(s.b) else 0
  def __int__(s): return s.__index__()
  def __repr__(s): return "<symbool>"
  def __format__(s, f): return "<symbool>"
  def bit_length(s): return s.as_int().bit_length()


def _fwd(name):
  def f(s, *a): return getattr(s.as_int(), name)(*a)
  f.__name__ = name
  return f


for _n in ['__add__', '__radd__', '__sub__', '__rsub__', '__mul__', '__rmul__', '__lshift__', '__rlshift__',
           '__rshift__', '__rrshift__', '__lt__', '__le__', '__gt__', '__ge__', '__floordiv__', '__rfloordiv__',
           '__mod__', '__rmod__', '__neg__', '__pos__', '__abs__', '__divmod__', '__rdivmod__']:
  setattr(SymBool, _n, _fwd(_n))


def _cint(x):
  """a real (concrete) python int / bool / int subclass -- never a proxy (proxies spoof __class__)"""
  t = type(x)
  return t is not SymInt and t is not SymBool and _isinstance(x, _int)


def lift(x):
  t = type(x)
  if t is SymInt: return x
  if t is SymBool: return x.as_int()
  if _cint(x):       # bool, int and int subclasses
    x = _int(x)
    return SymInt(z3.BitVecVal(x, x.bit_length() + 1), x >= 0)
  return None


class SymInt:
  __slots__ = ('e', 'nn')
  __class__ = property(lambda s: _int)

  def __init__(s, e, nn=False):
    s.e = e
    s.nn = nn

  @property
  def w(s): return s.e.size()

  # --- arithmetic
  def __add__(s, o):
    o = lift(o)
    if o is None: return NotImplemented
    w = max(s.w, o.w) + 1
    return SymInt(_sx(s.e, w) + _sx(o.e, w), s.nn and o.nn)
  __radd__ = __add__

  def __sub__(s, o):
    o = lift(o)
    if o is None: return NotImplemented
    w = max(s.w, o.w) + 1
    return SymInt(_sx(s.e, w) - _sx(o.e, w))

  def __rsub__(s, o):
    o = lift(o)
    if o is None: return NotImplemented
    return o.__sub__(s)

  def __neg__(s):
    w = s.w + 1
    return SymInt(-_sx(s.e, w))

  def __pos__(s): return s

  def __mul__(s, o):
    o = lift(o)
    if o is None: return NotImplemented
    w = s.w + o.w
    if w > MAXW: raise Unsupported("product wider than %d bits" % MAXW)
    return SymInt(_sx(s.e, w) * _sx(o.e, w), s.nn and o.nn)
  __rmul__ = __mul__

  def _bit(s, o, f, nn):
    w = max(s.w, o.w)
    return SymInt(f(_sx(s.e, w), _sx(o.e, w)), nn)

  def __and__(s, o):
    oo = lift(o)
    if oo is None: return NotImplemented
    # concrete non-negative mask: the result is non-negative and fits the mask's width
    if _cint(o) and o >= 0:
      o = _int(o)
      k = o.bit_length()
      if k == 0: return 0
      lo = z3.Extract(k - 1, 0, _sx(s.e, max(s.w, k)))
      if o == (1 << k) - 1:
        return SymInt(z3.ZeroExt(1, lo), True)
      return SymInt(z3.ZeroExt(1, lo & z3.BitVecVal(o, k)), True)
    return s._bit(oo, lambda a, b: a & b, s.nn or oo.nn)
  __rand__ = __and__

  def __or__(s, o):
    o = lift(o)
    if o is None: return NotImplemented
    return s._bit(o, lambda a, b: a | b, s.nn and o.nn)
  __ror__ = __or__

  def __xor__(s, o):
    o = lift(o)
    if o is None: return NotImplemented
    return s._bit(o, lambda a, b: a ^ b, s.nn and o.nn)
  __rxor__ = __xor__

  def __invert__(s): return SymInt(~s.e)

  def _shamt_bound(s, o):
    """largest feasible value of the shift amount o under the current path condition"""
    ex = current()
    if not o.nn and ex.feasible(o.e < 0):
      if branch(o.e < 0): raise ValueError("negative shift count")
    hi = (1 << (o.w - 1)) - 1
    lo_ = 0
    # cheap first probe: many call sites are guarded by `amount < nbits`
    while lo_ < hi:
      mid = (lo_ + hi + 1) // 2
      if ex.feasible(z3.UGE(o.e, z3.BitVecVal(mid, o.w))): lo_ = mid
      else: hi = mid - 1
    return lo_

  def __lshift__(s, o):
    if _cint(o):
      o = _int(o)
      if o < 0: raise ValueError("negative shift count")
      if s.w + o > MAXW: raise Unsupported("left shift wider than %d bits" % MAXW)
      return SymInt(z3.Concat(s.e, z3.BitVecVal(0, o)), s.nn) if o else s
    o = lift(o)
    if o is None: return NotImplemented
    c = z3.simplify(o.e)
    if z3.is_bv_value(c): return s.__lshift__(c.as_signed_long())
    mx = s._shamt_bound(o)
    w = s.w + mx
    if w > MAXW: raise Unsupported("left shift wider than %d bits" % MAXW)
    w = max(w, o.w)
    return SymInt(_sx(s.e, w) << _sx(o.e, w), s.nn)

  def __rlshift__(s, o):
    o = lift(o)
    if o is None: return NotImplemented
    return o.__lshift__(s)

  def __rshift__(s, o):
    if _cint(o):
      o = _int(o)
      if o < 0: raise ValueError("negative shift count")
      if o == 0: return s
      if o >= s.w: o = s.w - 1
      return SymInt(z3.Extract(s.w - 1, o, s.e), s.nn)
    o = lift(o)
    if o is None: return NotImplemented
    c = z3.simplify(o.e)
    if z3.is_bv_value(c): return s.__rshift__(c.as_signed_long())
    if not o.nn and current().feasible(o.e < 0):
      if branch(o.e < 0): raise ValueError("negative shift count")
    w = max(s.w, o.w)
    # bvashr with amounts >= w gives sign fill, which is the exact Python result
    return SymInt(_sx(s.e, w) >> _sx(o.e, w), s.nn)

  def __rrshift__(s, o):
    o = lift(o)
    if o is None: return NotImplemented
    return o.__rshift__(s)

  def _divmod(s, o):
    w = max(s.w, o.w) + 1
    if branch(_sx(o.e, w) == 0): raise ZeroDivisionError("integer division or modulo by zero")
    if s.nn and o.nn:
      # both operands known non-negative: the SMT-LIB unsigned operators at the natural width
      ua, ub = max(s.w - 1, 1), max(o.w - 1, 1)
      u = max(ua, ub)
      a = z3.simplify(_zx(z3.Extract(ua - 1, 0, s.e), u))
      b = z3.simplify(_zx(z3.Extract(ub - 1, 0, o.e), u))
      return SymInt(z3.ZeroExt(1, z3.UDiv(a, b)), True), SymInt(z3.ZeroExt(1, z3.URem(a, b)), True)
    a, b = _sx(s.e, w), _sx(o.e, w)
    q = a / b              # bvsdiv: truncation toward zero
    r = z3.SRem(a, b)      # sign follows the dividend
    adj = z3.And(r != 0, (r < 0) != (b < 0))
    return SymInt(z3.If(adj, q - 1, q)), SymInt(z3.If(adj, r + b, r), o.nn)

  def __floordiv__(s, o):
    o = lift(o)
    if o is None: return NotImplemented
    return s._divmod(o)[0]

  def __rfloordiv__(s, o):
    o = lift(o)
    return NotImplemented if o is None else o._divmod(s)[0]

  def __mod__(s, o):
    o = lift(o)
    if o is None: return NotImplemented
    return s._divmod(o)[1]

  def __rmod__(s, o):
    o = lift(o)
    return NotImplemented if o is None else o._divmod(s)[1]

  def __divmod__(s, o):
    o = lift(o)
    if o is None: return NotImplemented
    return s._divmod(o)

  def __rdivmod__(s, o):
    o = lift(o)
    return NotImplemented if o is None else o._divmod(s)

  def __abs__(s):
    if s.nn: return s
    w = s.w + 1
    e = _sx(s.e, w)
    return SymInt(z3.If(e < 0, -e, e), True)

  def bit_length(s):
    """int.bit_length(): number of bits of abs(value) -- an ite chain over the width"""
    a = abs(s)
    w = a.w
    lw = max(w.bit_length() + 1, 2)
    r = z3.BitVecVal(0, lw)
    for i in range(w):     # highest set bit wins: build from bit 0 upwards
      r = z3.If(z3.Extract(i, i, a.e) == 1, z3.BitVecVal(i + 1, lw), r)
    return SymInt(r, True)

  def __pow__(s, o, m=None): raise Unsupported("pow of a symbolic value")
  def __rpow__(s, o, m=None): raise Unsupported("pow with a symbolic exponent")
  def __truediv__(s, o): raise Unsupported("true division of a symbolic value (float)")
  def __rtruediv__(s, o): raise Unsupported("true division of a symbolic value (float)")
  def __float__(s): raise Unsupported("float() of a symbolic value")

  # --- comparisons
  def _cmp(s, o, f):
    o = lift(o)
    if o is None: return NotImplemented
    w = max(s.w, o.w)
    return SymBool(f(_sx(s.e, w), _sx(o.e, w)))

  def __eq__(s, o): return s._cmp(o, lambda a, b: a == b)
  def __ne__(s, o): return s._cmp(o, lambda a, b: a != b)
  def __lt__(s, o): return s._cmp(o, lambda a, b: a < b)
  def __le__(s, o): return s._cmp(o, lambda a, b: a <= b)
  def __gt__(s, o): return s._cmp(o, lambda a, b: a > b)
  def __ge__(s, o): return s._cmp(o, lambda a, b: a >= b)
  def __bool__(s): return branch(s.e != 0)
  def __hash__(s):
    # used as a dict key (e.g. a decoded message type selecting a handler): concretise by forking over the feasible
    # values -- counted as concretisations; a large domain hits the concretisation budget (inconclusive, never silent)
    return hash(current().concretise(s.e))
  def __index__(s): return current().concretise(s.e)
  def __int__(s): return s.__index__()
  def __repr__(s): return "<symint%d>" % s.w
  def __format__(s, f): return "<symint>"


# ---------------------------------------------------------------------------
# helpers for harnesses
# ---------------------------------------------------------------------------
def fresh(name, nbits):
  """symbolic integer in [0, 2^nbits); returns (SymInt, z3 variable of width nbits)"""
  v = z3.BitVec(name, nbits)
  return SymInt(z3.ZeroExt(1, v), True), v


def fresh_signed(name, nbits):
  """symbolic integer in [-2^(nbits-1), 2^(nbits-1))"""
  v = z3.BitVec(name, nbits)
  return SymInt(v, False), v


def from_bv(e, signed=False):
  """wrap a z3 bit-vector term (read unsigned unless signed=True)"""
  return SymInt(e, False) if signed else SymInt(z3.ZeroExt(1, e), True)


def ubv(x, n):
  """the value of python/symbolic int x as an n-bit bit-vector (low n bits, two's complement)"""
  x = lift(x)
  if x.w >= n: return z3.Extract(n - 1, 0, x.e)
  return z3.SignExt(n - x.w, x.e)


def in_range(x, lo, hi):
  """z3 Bool: lo <= x <= hi for python ints lo, hi and a symbolic/concrete int x"""
  x = lift(x)
  w = max(x.w, lo.bit_length() + 1, hi.bit_length() + 1)
  e = _sx(x.e, w)
  return z3.And(e >= z3.BitVecVal(lo, w), e <= z3.BitVecVal(hi, w))


def is_sym(x):
  return type(x) in (SymInt, SymBool)


# ---------------------------------------------------------------------------
# stand-ins for builtins, installed into the globals of analysed modules
# ---------------------------------------------------------------------------
def sym_int(x=0, *a):
  t = type(x)
  if t is SymInt: return x
  if t is SymBool: return x.as_int()
  if a: return _int(x, *a)
  if t in (_int, bool, float, str): return _int(x)
  m = getattr(t, '__int__', None)
  if m is not None:
    r = m(x)
    if type(r) is SymInt: return r
    if type(r) is SymBool: return r.as_int()
    return _int(r)
  return _int(x)


def _fix_cls(cls):
  if cls is sym_int: return _int
  if type(cls) is tuple: return tuple(_fix_cls(c) for c in cls)
  return cls


def sym_isinstance(x, cls):
  cls = _fix_cls(cls)
  if type(x) in (SymInt, SymBool):
    if cls is _int: return True
    if type(cls) is tuple and _int in cls: return True
    return False
  return _isinstance(x, cls)


def sym_hex(x):
  if type(x) in (SymInt, SymBool): return "<sym>"
  return hex(x)


def install(mod):
  """replace int / isinstance / hex in a module's globals (never in builtins)"""
  d = mod if type(mod) is dict else mod.__dict__
  d['int'] = sym_int
  d['isinstance'] = sym_isinstance
  d['hex'] = sym_hex
