"""symx.pymtl -- make the real pymtl3 datatypes run on symbolic payloads.

Nothing in /repo is modified: stand-ins are assigned into module globals of
the analysed modules in *this process* and three thin shims are put on the
Bits class (see DESIGN.md 4.3; every stand-in is part of every claim).
"""
import sys
import z3

from . import core
from .core import SymInt, SymBool, Unsupported, lift, install, is_sym

_done = False
PB = HP = BS = Bits = None


def setup(extra_modules=()):
  """idempotent; returns the Bits class"""
  global _done, PB, HP, BS, Bits
  import pymtl3.datatypes.PythonBits as _PB
  import pymtl3.datatypes.helpers as _HP
  import pymtl3.datatypes.bitstructs as _BS
  PB, HP, BS = _PB, _HP, _BS
  Bits = PB.Bits
  for m in (PB, HP, BS) + tuple(extra_modules):
    install(m)
  if _done: return Bits
  _done = True

  ob = Bits.__bool__
  def __bool__(self):
    return bool(ob(self))            # CPython insists on a real bool: SymBool.__bool__ forks
  Bits.__bool__ = __bool__

  oi = Bits.__index__
  def __index__(self):
    r = oi(self)
    if is_sym(r): return r.__index__()   # concretise by forking
    return r
  Bits.__index__ = __index__

  oh = Bits.__hash__
  def __hash__(self):
    if is_sym(self._uint): raise Unsupported("hash of a Bits with a symbolic payload")
    return oh(self)
  Bits.__hash__ = __hash__
  # Bits.__int__ is reached through the sym_int stand-in (modules analysed) or through CPython's
  # int() slot (everything else); the latter needs a real int:
  oint = Bits.__int__
  def __int__(self):
    r = oint(self)
    if is_sym(r) and sys._getframe(1).f_code is not core.sym_int.__code__:
      return r.__index__()             # called by CPython's int(): must be a real int -> concretise by fork
    return r
  Bits.__int__ = __int__
  return Bits


def install_into(*mods):
  for m in mods: install(m)


def sym_bits(n, name):
  """a Bits<n> whose payload is a fresh symbolic value; returns (bits, z3 variable)"""
  s, v = core.fresh(name, n)
  from pymtl3.datatypes import mk_bits
  b = object.__new__(mk_bits(n))
  b._nbits = n
  b._uint = s
  return b, v


def bv_bits(n, e):
  """a Bits<n> whose payload is the given z3 term of width n"""
  from pymtl3.datatypes import mk_bits
  assert e.size() == n
  b = object.__new__(mk_bits(n))
  b._nbits = n
  b._uint = core.from_bv(e)
  return b


def bits_bv(b):
  """n-bit z3 term of the payload of a Bits (concrete or symbolic)"""
  return core.ubv(b._uint, b._nbits)


def payload_in_range(b):
  """z3 Bool: 0 <= payload < 2^nbits (the stored-value invariant)"""
  return core.in_range(b._uint, 0, (1 << b._nbits) - 1)
