"""symx.schedule -- block summaries and the symbolic schedule (DESIGN 5.2).

A summary f_b is obtained by running the raw block once (on all its paths) from the fully symbolic state; it is a
dict cell -> z3 term over the state variables.  "Execute the blocks in the order pos" is then encoded with integer
position variables constrained by the REAL top._dag.all_constraints; one query asks for a legal schedule and a state
whose result differs from the reference order."""
import z3

from . import core


def blk_key(top, b):
  if b in top._dag.genblks: return 'net:' + b.__name__
  try:
    return repr(top.get_update_block_host_component(b)) + '.' + b.__name__
  except Exception:
    return 'blk:' + b.__name__


class Sched:
  def __init__(s, sim):
    s.sim = sim
    top = sim.top
    s.top = top
    s.blks = sorted(top._dag.final_upblks - top.get_all_update_ff(), key=lambda b: blk_key(top, b))
    s.key = {b: blk_key(top, b) for b in s.blks}
    s.V = {c.name: z3.BitVec(c.name, c.nbits) for c in sim.cells}
    s.names = [c.name for c in sim.cells]
    s.summ = {}
    s.raises = {}
    s.npaths = 0
    for b in s.blks:
      v, terms, nexts, raised, n = sim.summarize(b)
      s.summ[b] = terms
      s.raises[b] = raised
      s.npaths += n
    s.cons = [(a, b) for (a, b) in top._dag.all_constraints if a in s.summ and b in s.summ]

  def may_raise(s):
    return [s.key[b] for b in s.blks if not z3.is_false(s.raises[b])]

  def apply(s, b, st):
    sub = [(s.V[n], st[n]) for n in s.names]
    return {n: z3.substitute(t, *sub) for n, t in s.summ[b].items()}

  def run_order(s, order, st=None):
    st = dict(s.V) if st is None else st
    for b in order: st = s.apply(b, st)
    return st

  def differs(s, a, b):
    return z3.Or(*[a[n] != b[n] for n in s.names]) if s.names else z3.BoolVal(False)

  def fixed_point_violation(s, st):
    """z3 Bool: some block, run again on st, changes a cell"""
    return z3.Or(*[s.differs(s.apply(b, st), st) for b in s.blks]) if s.blks else z3.BoolVal(False)

  def all_orders_query(s, ref):
    """solver asserting: a position assignment respecting every real constraint whose result differs from ref"""
    m = len(s.blks)
    pos = {b: z3.Int('pos_%d' % i) for i, b in enumerate(s.blks)}
    sv = z3.Solver(); sv.set('timeout', 120000)
    if m: sv.add(z3.Distinct(*pos.values()))
    for p in pos.values(): sv.add(p >= 0, p < m)
    for a, b in s.cons: sv.add(pos[a] < pos[b])
    st = dict(s.V)
    for k in range(m):
      cand = [s.apply(b, st) for b in s.blks]
      nxt = {}
      for n in s.names:
        e = cand[-1][n]
        for bi in reversed(range(m - 1)): e = z3.If(pos[s.blks[bi]] == k, cand[bi][n], e)
        nxt[n] = e
      st = nxt
    sv.add(s.differs(st, ref))
    return sv, pos

  def unordered_pairs(s):
    """pairs of blocks not related by the transitive closure of the constraints"""
    idx = {b: i for i, b in enumerate(s.blks)}
    m = len(s.blks)
    reach = [[False] * m for _ in range(m)]
    for a, b in s.cons: reach[idx[a]][idx[b]] = True
    for k in range(m):
      for i in range(m):
        if reach[i][k]:
          for j in range(m):
            if reach[k][j]: reach[i][j] = True
    return [(s.blks[i], s.blks[j]) for i in range(m) for j in range(i + 1, m) if not reach[i][j] and not reach[j][i]]

  def commute_violation(s, a, b):
    ab = s.apply(b, s.apply(a, dict(s.V))); ba = s.apply(a, s.apply(b, dict(s.V)))
    return s.differs(ab, ba)
