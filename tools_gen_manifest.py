#!/usr/bin/env python3
"""regenerate MANIFEST.json from the table below (keeps it valid at all times)"""
import json, os
HERE = os.path.dirname(os.path.abspath(__file__))
MC = 'model_checking'; TV = 'translation_validation'
CHECKS = {}   # filled by manifest_data.py
NA = {}
exec(open(os.path.join(HERE, 'manifest_data.py')).read())
props = [json.loads(l)['id'] for l in open(os.path.join(HERE, 'properties.jsonl'))]
checks = []
for pid in props:
  if pid in CHECKS:
    c = CHECKS[pid]
    checks.append({
      'property_id': pid,
      'quick_cmd': f'./vcheck {pid} quick',
      'thorough_cmd': f'./vcheck {pid} thorough',
      'evidence_file': f'/verif/evidence/{pid}.json',
      'replay_cmd_template': '/verif/vreplay {path}',
      'engine': c.get('engine', 'symx'),
      'level_claimed': {'category': c.get('level', MC), 'text': c['text'], 'design_ref': c['ref']},
      'level_note': c['note'],
      'technique': c['technique'],
    })
  else:
    assert pid in NA, pid
m = {
  'version': 1,
  'setup_cmd': './setup.sh',
  'hooks': {'guard': 'PYMTL3_VERIF', 'enable': 'none needed: all stand-ins are applied by the harness process at run time; vcheck exports PYMTL3_VERIF=1 for uniformity',
            'baseline_off_cmd': 'cd /repo && /venv/bin/python -m pytest -ra -q -p no:cacheprovider --timeout=900 --continue-on-collection-errors',
            'source_commits': [], 'add_only': True},
  'engines': ENGINES,
  'checks': checks,
  'notes': NOTES,
  'not_applicable': [{'property_id': p, 'reason': NA[p]} for p in props if p not in CHECKS],
}
json.dump(m, open(os.path.join(HERE, 'MANIFEST.json'), 'w'), indent=1)
print('checks:', [c['property_id'] for c in checks], 'n/a:', [p for p in props if p not in CHECKS])
