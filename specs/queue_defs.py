"""which library queues exist and how their interfaces map onto (enq offer, msg, deq offer) -- no z3, usable from replays"""
# family -> (module, {kind: class name}, interface style, resets_everything)
FAMILIES = {
  'queues':   ('pymtl3.stdlib.queues.queues', {'normal': 'NormalQueueRTL', 'pipe': 'PipeQueueRTL', 'bypass': 'BypassQueueRTL'}, 'A', True),
  'stream':   ('pymtl3.stdlib.stream.queues', {'normal': 'NormalQueueRTL', 'pipe': 'PipeQueueRTL', 'bypass': 'BypassQueueRTL'}, 'C', True),
  'enrdy1':   ('pymtl3.stdlib.queues.enrdy_queues', {'normal': 'NormalQueue1RTL', 'pipe': 'PipeQueue1RTL', 'bypass': 'BypassQueue1RTL'}, 'B', False),
  'enrdy2':   ('pymtl3.stdlib.queues.enrdy_queues', {'bypass': 'BypassQueue2RTL'}, 'B', False),
}
STYLE = {   # enq offer, enq msg, deq offer | enq rdy, deq rdy, deq msg, count
  'A': dict(eo='s.enq.en', msg='s.enq.msg', do='s.deq.en', enq_rdy='s.enq.rdy', deq_rdy='s.deq.rdy', deq_msg='s.deq.ret', count='s.count', legal=True),
  'B': dict(eo='s.enq.en', msg='s.enq.msg', do='s.deq.rdy', enq_rdy='s.enq.rdy', deq_rdy=None, deq_x='s.deq.en', deq_msg='s.deq.msg', count=None, legal=True),
  'C': dict(eo='s.recv.val', msg='s.recv.msg', do='s.send.rdy', enq_rdy='s.recv.rdy', deq_rdy='s.send.val', deq_msg='s.send.msg', count='s.count', legal=False),
}


def msg_type(mt):
  from pymtl3.datatypes import mk_bits, mk_bitstruct
  if mt == 'struct':
    return mk_bitstruct('C17Msg', {'hi': mk_bits(3), 'mid': [mk_bits(2)] * 2, 'lo': mk_bits(5)})
  return mk_bits(int(mt))


