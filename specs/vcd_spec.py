"""An independent reader for the subset of IEEE-1364 VCD that matters here (C16): scopes, $var declarations, #time
stamps, scalar and vector value changes.  Values are binary digit strings -- or, in the symbolic run, a marker
\\x01<id>\\x02 standing for a z3 term.  Nothing here comes from pymtl3."""
import re

MARK = re.compile("\x01(\\d+)\x02")


class VcdError(Exception):
  pass


def _value(tok):
  """'0101' -> ('const', 5, 4);  '\\x01 7\\x02' -> ('sym', 7)"""
  m = MARK.fullmatch(tok)
  if m: return ('sym', int(m.group(1)))
  if not tok or any(c not in '01' for c in tok): raise VcdError(f"value {tok!r} is not a two-state binary number")
  return ('const', int(tok, 2), len(tok))


def parse(text):
  """returns (vars, initial, changes): vars = [(scope tuple, name, width, symbol)], initial = [(symbol, value)] (before the
  first time stamp), changes = [(time, symbol, value)] in file order"""
  lines = text.split('\n')
  vars_, scope = [], []
  i = 0
  in_defs = True
  while i < len(lines) and in_defs:
    l = lines[i].strip(); i += 1
    if l.startswith('$scope'):
      p = l.split()
      if len(p) != 4 or p[1] != 'module' or p[3] != '$end': raise VcdError(f"bad scope line {l!r}")
      scope.append(p[2])
    elif l.startswith('$upscope'):
      if not scope: raise VcdError("$upscope without a scope")
      scope.pop()
    elif l.startswith('$var'):
      p = l.split()
      if len(p) != 6 or p[5] != '$end' or not p[2].isdigit(): raise VcdError(f"bad $var line {l!r}")
      vars_.append((tuple(scope), p[4], int(p[2]), p[3]))
    elif l.startswith('$enddefinitions'):
      in_defs = False
  if in_defs: raise VcdError("no $enddefinitions")
  if scope: raise VcdError("unbalanced scopes")
  syms = {v[3] for v in vars_}
  initial, changes = [], []
  t = None
  for l in lines[i:]:
    l = l.rstrip('\n')
    if not l.strip(): continue
    if l.startswith('#'):
      if not l[1:].isdigit(): raise VcdError(f"bad time stamp {l!r}")
      nt = int(l[1:])
      if t is not None and nt <= t: raise VcdError(f"time stamp {nt} after {t}")
      t = nt; continue
    if l[0] in 'bB':
      p = l[1:].split(' ')
      if len(p) != 2 or not p[1]: raise VcdError(f"bad vector change {l!r}")
      val, sym = _value(p[0]), p[1]
    else:
      m = MARK.match(l)
      if m: val, sym = ('sym', int(m.group(1))), l[m.end():]
      else: val, sym = _value(l[0]), l[1:]
      if val[0] == 'const' and val[2] != 1: raise VcdError(f"bad scalar change {l!r}")
    if sym not in syms: raise VcdError(f"value change for an undeclared symbol {sym!r}")
    (initial if t is None else changes).append((sym, val) if t is None else (t, sym, val))
  return vars_, initial, changes


def signal_name(scope, name):
  """('top', 'c', 'q(1)'), 'enq.rdy' -> 's.c.q[1].enq.rdy'  (the writer mangles [] to () and : to __)"""
  un = lambda x: x.replace('(', '[').replace(')', ']')
  if not scope or scope[0] != 'top': raise VcdError(f"outermost scope is {scope[:1]}, expected 'top'")
  return '.'.join(['s'] + [un(x) for x in scope[1:]] + [un(name)])


def waveform(vars_, initial, changes, ncycles):
  """value of every symbol at the initial point and at every cycle c (= after the changes stamped 100c, before 100c+50);
  also the list of (time, value) of every symbol.  returns (per_symbol_initial, per_cycle list of dicts, history)"""
  cur = {}
  for sym, val in initial:
    cur[sym] = val
  init = dict(cur)
  per = []
  hist = {}
  k = 0
  for c in range(ncycles):
    while k < len(changes) and changes[k][0] < 100 * c + 50:
      t, sym, val = changes[k]; cur[sym] = val; hist.setdefault(sym, []).append((t, val)); k += 1
    per.append(dict(cur))
  while k < len(changes):
    t, sym, val = changes[k]; hist.setdefault(sym, []).append((t, val)); k += 1
  return init, per, hist
