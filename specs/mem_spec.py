"""Sequential byte-memory specification for C18 (little endian, RISC-V 'A' semantics for atomics), independent of
pymtl3.  z3 form over Array(BV32 -> BV8) and plain-int form for replays.  Message type numbers as in MemMsg.py."""
try:
  import z3
except ImportError:
  z3 = None

READ, WRITE, AMO_ADD, AMO_AND, AMO_OR, AMO_SWAP, AMO_MIN, AMO_MINU, AMO_MAX, AMO_MAXU, AMO_XOR = 0, 1, 3, 4, 5, 6, 7, 8, 9, 10, 11
AMOS = (AMO_ADD, AMO_AND, AMO_OR, AMO_SWAP, AMO_MIN, AMO_MINU, AMO_MAX, AMO_MAXU, AMO_XOR)
FAMILIES = {'w': (WRITE,), 'amo_add': (AMO_ADD,), 'rw': (READ, WRITE), 'amo_arith': (READ, WRITE, AMO_ADD, AMO_AND, AMO_OR, AMO_SWAP, AMO_XOR), 'amo_minmax': (WRITE, AMO_MIN, AMO_MINU, AMO_MAX, AMO_MAXU)}


def z3_step(arr, t, a, l, d, dw=32):
  """one processed request on a port whose data field is dw bits wide (len field clog2(dw/8) bits, 0 = all dw/8 bytes):
  returns (new array, response len, response data)"""
  NB = dw // 8
  lw = l.size()
  nb = z3.If(l == 0, z3.BitVecVal(NB, lw + 1), z3.ZeroExt(1, l))
  rd = lambda k: z3.Select(arr, a + k)
  old = z3.Concat(*[rd(k) for k in reversed(range(NB))])
  mask = z3.BitVecVal((1 << dw) - 1, dw)
  for k in range(1, NB): mask = z3.If(nb == k, z3.BitVecVal((1 << (8 * k)) - 1, dw), mask)
  oldm = old & mask

  def wr(ar, val):
    for k in range(NB):
      ar = z3.If(z3.UGT(nb, k), z3.Store(ar, a + k, z3.Extract(8 * k + 7, 8 * k, val)), ar)
    return ar
  newv = d
  for code, f in ((AMO_ADD, lambda m, x: m + x), (AMO_AND, lambda m, x: m & x), (AMO_OR, lambda m, x: m | x), (AMO_SWAP, lambda m, x: x),
                  (AMO_XOR, lambda m, x: m ^ x), (AMO_MIN, lambda m, x: z3.If(m < x, m, x)), (AMO_MAX, lambda m, x: z3.If(m > x, m, x)),
                  (AMO_MINU, lambda m, x: z3.If(z3.ULT(m, x), m, x)), (AMO_MAXU, lambda m, x: z3.If(z3.UGT(m, x), m, x))):
    newv = z3.If(t == code, f(oldm, d), newv)
  arr2 = z3.If(t == READ, arr, wr(arr, newv))
  rdata = z3.If(t == WRITE, z3.BitVecVal(0, dw), oldm)
  rlen = z3.If(t == WRITE, z3.BitVecVal(0, lw), l)
  return arr2, rlen, rdata


def py_step(mem, t, a, l, d, dw=32):
  """mem: dict addr -> byte.  returns (resp len, resp data)"""
  nb = dw // 8 if l == 0 else l
  M = (1 << dw) - 1
  old = 0
  for k in reversed(range(nb)): old = (old << 8) | mem.get(a + k, 0)
  sg = lambda v: v - (1 << dw) if v & (1 << (dw - 1)) else v
  if t == READ: return l, old
  f = {WRITE: lambda m, x: x, AMO_ADD: lambda m, x: (m + x) & M, AMO_AND: lambda m, x: m & x, AMO_OR: lambda m, x: m | x, AMO_SWAP: lambda m, x: x,
       AMO_XOR: lambda m, x: m ^ x, AMO_MIN: lambda m, x: m if sg(m) < sg(x) else x, AMO_MAX: lambda m, x: m if sg(m) > sg(x) else x,
       AMO_MINU: min, AMO_MAXU: max}[t]
  new = f(old, d)
  for k in range(nb): mem[a + k] = (new >> (8 * k)) & 0xff
  return (0, 0) if t == WRITE else (l, old)
