"""Independent specification of Bits arithmetic (C04), written twice on purpose:

  * `z3` -- over SMT-LIB bit-vector operators at width n (THE definition of arithmetic mod 2^n);
            used by the solver queries;
  * `py` -- over Python ints with explicit `% 2**N`; used only by the concrete replay scripts.

Nothing here imports pymtl3.
"""
try:
  import z3
except ImportError:      # replay scripts run under /venv/bin/python, which has no z3: only `py` is used there
  z3 = None


def _b1(c): return z3.If(c, z3.BitVecVal(1, 1), z3.BitVecVal(0, 1))


# name: (python operator text, z3 spec(x,y)->(term,width or None for "n"), py spec(X,Y,N)->(value,width or None), zero_div)
BIN = {
  'add': ('+',  lambda x, y: (x + y, None),            lambda X, Y, N: ((X + Y) % 2**N, None), False),
  'sub': ('-',  lambda x, y: (x - y, None),            lambda X, Y, N: ((X - Y) % 2**N, None), False),
  'mul': ('*',  lambda x, y: (x * y, None),            lambda X, Y, N: ((X * Y) % 2**N, None), False),
  'and': ('&',  lambda x, y: (x & y, None),            lambda X, Y, N: (X & Y, None), False),
  'or':  ('|',  lambda x, y: (x | y, None),            lambda X, Y, N: (X | Y, None), False),
  'xor': ('^',  lambda x, y: (x ^ y, None),            lambda X, Y, N: (X ^ Y, None), False),
  'floordiv': ('//', lambda x, y: (z3.UDiv(x, y), None), lambda X, Y, N: (X // Y, None), True),
  'mod': ('%',  lambda x, y: (z3.URem(x, y), None),    lambda X, Y, N: (X % Y, None), True),
  'lshift': ('<<', lambda x, y: (x << y, None),        lambda X, Y, N: (0 if Y >= N else (X << Y) % 2**N, None), False),
  'rshift': ('>>', lambda x, y: (z3.LShR(x, y), None), lambda X, Y, N: (0 if Y >= N else X >> Y, None), False),
  'eq': ('==',  lambda x, y: (_b1(x == y), 1),         lambda X, Y, N: (int(X == Y), 1), False),
  'ne': ('!=',  lambda x, y: (_b1(x != y), 1),         lambda X, Y, N: (int(X != Y), 1), False),
  'lt': ('<',   lambda x, y: (_b1(z3.ULT(x, y)), 1),   lambda X, Y, N: (int(X < Y), 1), False),
  'le': ('<=',  lambda x, y: (_b1(z3.ULE(x, y)), 1),   lambda X, Y, N: (int(X <= Y), 1), False),
  'gt': ('>',   lambda x, y: (_b1(z3.UGT(x, y)), 1),   lambda X, Y, N: (int(X > Y), 1), False),
  'ge': ('>=',  lambda x, y: (_b1(z3.UGE(x, y)), 1),   lambda X, Y, N: (int(X >= Y), 1), False),
}
SHIFTS = ('lshift', 'rshift')
DIVS = ('floordiv', 'mod')


def py_expected(name, form, N, A, B, K, M=None):
  """expected outcome in plain Python ints: ('val', value, width) or ('exc', name).
  form: 'bb' a op b | 'bk' a op k | 'kb' k op a | 'mixed' a(N) op b(M)"""
  op, _, py, zd = BIN[name]
  if form == 'mixed':
    if name in SHIFTS:
      return ('either', ('exc', 'ValueError'), ('val', py(A, B, N)[0], N))
    return ('exc', 'ValueError')
  if form == 'bb': X, Y = A, B
  elif form == 'bk':
    if not (0 <= K <= 2**N - 1): return ('exc', 'ValueError')
    X, Y = A, K
  else:
    if not (0 <= K <= 2**N - 1): return ('exc', 'ValueError')
    X, Y = K, A
  if zd and Y == 0: return ('exc', 'ZeroDivisionError')
  v, w = py(X, Y, N)
  return ('val', v, N if w is None else w)


def py_ctor(N, V, trunc=False):
  if not trunc and not (-2**(N - 1) <= V <= 2**N - 1): return ('exc', 'ValueError')
  return ('val', V % 2**N, N)
