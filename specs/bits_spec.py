"""Independent specification of Bits arithmetic (C04), written twice on purpose:

  * `z3` -- over SMT-LIB bit-vector operators at width n (THE definition of arithmetic mod 2^n);
            used by the solver queries;
  * `py` -- over Python ints with explicit `% 2**N`; used only by the concrete replay scripts.

Nothing here imports pymtl3.
"""
try:
  import z3
except ImportError:      # replay scripts run under /venv/bin/python, which has no z3: only `py` is used there
  z3 = None


def _b1(c): return z3.If(c, z3.BitVecVal(1, 1), z3.BitVecVal(0, 1))


# name: (python operator text, z3 spec(x,y)->(term,width or None for "n"), py spec(X,Y,N)->(value,width or None), zero_div)
BIN = {
  'add': ('+',  lambda x, y: (x + y, None),            lambda X, Y, N: ((X + Y) % 2**N, None), False),
  'sub': ('-',  lambda x, y: (x - y, None),            lambda X, Y, N: ((X - Y) % 2**N, None), False),
  'mul': ('*',  lambda x, y: (x * y, None),            lambda X, Y, N: ((X * Y) % 2**N, None), False),
  'and': ('&',  lambda x, y: (x & y, None),            lambda X, Y, N: (X & Y, None), False),
  'or':  ('|',  lambda x, y: (x | y, None),            lambda X, Y, N: (X | Y, None), False),
  'xor': ('^',  lambda x, y: (x ^ y, None),            lambda X, Y, N: (X ^ Y, None), False),
  'floordiv': ('//', lambda x, y: (z3.UDiv(x, y), None), lambda X, Y, N: (X // Y, None), True),
  'mod': ('%',  lambda x, y: (z3.URem(x, y), None),    lambda X, Y, N: (X % Y, None), True),
  'lshift': ('<<', lambda x, y: (x << y, None),        lambda X, Y, N: (0 if Y >= N else (X << Y) % 2**N, None), False),
  'rshift': ('>>', lambda x, y: (z3.LShR(x, y), None), lambda X, Y, N: (0 if Y >= N else X >> Y, None), False),
  'eq': ('==',  lambda x, y: (_b1(x == y), 1),         lambda X, Y, N: (int(X == Y), 1), False),
  'ne': ('!=',  lambda x, y: (_b1(x != y), 1),         lambda X, Y, N: (int(X != Y), 1), False),
  'lt': ('<',   lambda x, y: (_b1(z3.ULT(x, y)), 1),   lambda X, Y, N: (int(X < Y), 1), False),
  'le': ('<=',  lambda x, y: (_b1(z3.ULE(x, y)), 1),   lambda X, Y, N: (int(X <= Y), 1), False),
  'gt': ('>',   lambda x, y: (_b1(z3.UGT(x, y)), 1),   lambda X, Y, N: (int(X > Y), 1), False),
  'ge': ('>=',  lambda x, y: (_b1(z3.UGE(x, y)), 1),   lambda X, Y, N: (int(X >= Y), 1), False),
}
SHIFTS = ('lshift', 'rshift')
DIVS = ('floordiv', 'mod')


def py_expected(name, form, N, A, B, K, M=None):
  """expected outcome in plain Python ints: ('val', value, width) or ('exc', name).
  form: 'bb' a op b | 'bk' a op k | 'kb' k op a | 'mixed' a(N) op b(M)"""
  op, _, py, zd = BIN[name]
  if form == 'mixed':
    if name in SHIFTS:
      return ('either', ('exc', 'ValueError'), ('val', py(A, B, N)[0], N))
    return ('exc', 'ValueError')
  if form == 'bb': X, Y = A, B
  elif form == 'bk':
    if not (0 <= K <= 2**N - 1): return ('exc', 'ValueError')
    X, Y = A, K
  else:
    if not (0 <= K <= 2**N - 1): return ('exc', 'ValueError')
    X, Y = K, A
  if zd and Y == 0: return ('exc', 'ZeroDivisionError')
  v, w = py(X, Y, N)
  return ('val', v, N if w is None else w)


def py_ctor(N, V, trunc=False):
  if not trunc and not (-2**(N - 1) <= V <= 2**N - 1): return ('exc', 'ValueError')
  return ('val', V % 2**N, N)


# ---------------------------------------------------------------------------
# C05: slices and helpers, plain-Python form used by replay scripts
# ---------------------------------------------------------------------------
def py_getitem(N, X, idx):
  """idx: int | (lo, hi, step) with None for absent bounds"""
  if isinstance(idx, tuple):
    lo, hi, st = idx
    if st is not None: return ('exc', 'IndexError')
    lo = 0 if lo is None else lo
    hi = N if hi is None else hi
    if not (0 <= lo < hi <= N): return ('exc', 'IndexError')
    return ('val', (X >> lo) % 2**(hi - lo), hi - lo)
  if not (0 <= idx < N): return ('exc', 'IndexError')
  return ('val', (X >> idx) & 1, 1)


def py_setitem(N, X, idx, v):
  """v: int | ('bits', m, value); returns set of acceptable outcomes [('val', newX, N) | ('exc', name)]"""
  if isinstance(idx, tuple):
    lo, hi, st = idx
    bad_idx = st is not None
    lo = 0 if lo is None else lo
    hi = N if hi is None else hi
    bad_idx = bad_idx or not (0 <= lo < hi <= N)
  else:
    lo, hi = idx, idx + 1
    bad_idx = not (0 <= idx < N)
  w = hi - lo
  outs = []
  if bad_idx: outs.append(('exc', 'IndexError'))
  if isinstance(v, tuple):
    _, m, val = v
    if bad_idx or m > w: outs.append(('exc', 'ValueError'))
    if not bad_idx and m < w: outs.append(('exc', 'ValueError'))       # narrower: refusing is fine
    if not bad_idx and m <= w:
      if m == w or True:
        outs.append(('val', (X & ~(((1 << w) - 1) << lo)) | (val << lo), N))
    if not bad_idx and m > w: pass
  else:
    if bad_idx: outs.append(('exc', 'ValueError'))
    elif not (-2**(w - 1) <= v <= 2**w - 1): outs.append(('exc', 'ValueError'))
    else: outs.append(('val', (X & ~(((1 << w) - 1) << lo)) | ((v % 2**w) << lo), N))
  return outs


def py_clog2(N):
  k = 0
  while (1 << k) < N: k += 1
  return k
