"""FIFO specification for C17 (independent of pymtl3).  kind in {'normal','pipe','bypass'}, capacity n.

A cycle takes (reset, enq_offer, msg, deq_offer) and yields
   enq_rdy, deq_rdy, deq_msg (meaningful iff deq_rdy), count (= occupancy before the cycle's transfers)
and the next abstract sequence.  Same-cycle rules:
   pipe   : enq_rdy also when full iff a dequeue happens this cycle
   bypass : deq_rdy also when empty iff an enqueue happens this cycle (the message is passed through)
Written twice: z3 terms (symbolic state of n slots + length) and plain Python (replay).
"""
try:
  import z3
except ImportError:
  z3 = None

LW = 6   # bits of the length counter (n <= 31)


class Z3Fifo:
  def __init__(s, kind, n, w):
    s.kind, s.n, s.w = kind, n, w
    s.items = [z3.BitVecVal(0, w) for _ in range(n)]
    s.len = z3.BitVecVal(0, LW)

  def from_terms(s, items, ln):
    s.items = list(items); s.len = ln; return s

  def cycle(s, reset, eo, msg, do):
    """reset/eo/do: z3 Bool; msg: BV(w).  returns dict of outputs (valid when not reset) and advances"""
    n = s.n
    full = s.len == n; empty = s.len == 0
    if s.kind == 'normal':  enq_rdy = z3.Not(full); deq_rdy = z3.Not(empty)
    elif s.kind == 'pipe':  deq_rdy = z3.Not(empty); enq_rdy = z3.Or(z3.Not(full), z3.And(do, deq_rdy))
    else:                   enq_rdy = z3.Not(full); deq_rdy = z3.Or(z3.Not(empty), z3.And(eo, enq_rdy))
    enq_x = z3.And(eo, enq_rdy); deq_x = z3.And(do, deq_rdy)
    head = s.items[0]
    deq_msg = z3.If(empty, msg, head) if s.kind == 'bypass' else head
    out = dict(enq_rdy=enq_rdy, deq_rdy=deq_rdy, deq_msg=deq_msg, count=s.len, enq_x=enq_x, deq_x=deq_x)
    passthru = z3.And(empty, enq_x, deq_x) if s.kind == 'bypass' else z3.BoolVal(False)
    pop = z3.And(deq_x, z3.Not(empty))
    push = z3.And(enq_x, z3.Not(passthru))
    items1 = [z3.If(pop, s.items[i + 1] if i + 1 < n else s.items[i], s.items[i]) for i in range(n)]
    len1 = z3.If(pop, s.len - 1, s.len)
    items2 = [z3.If(z3.And(push, len1 == i), msg, items1[i]) for i in range(n)]
    len2 = z3.If(push, len1 + 1, len1)
    s.items = [z3.If(reset, s.items[i], items2[i]) for i in range(n)]
    s.len = z3.If(reset, z3.BitVecVal(0, LW), len2)
    return out


class PyFifo:
  def __init__(s, kind, n):
    s.kind, s.n, s.q = kind, n, []

  def cycle(s, reset, eo, msg, do):
    n = s.n; ln = len(s.q)
    full, empty = ln == n, ln == 0
    if s.kind == 'normal':  enq_rdy = not full; deq_rdy = not empty
    elif s.kind == 'pipe':  deq_rdy = not empty; enq_rdy = (not full) or (do and deq_rdy)
    else:                   enq_rdy = not full; deq_rdy = (not empty) or (eo and enq_rdy)
    enq_x = bool(eo and enq_rdy); deq_x = bool(do and deq_rdy)
    deq_msg = (msg if empty else s.q[0]) if s.kind == 'bypass' else (s.q[0] if s.q else None)
    out = dict(enq_rdy=bool(enq_rdy), deq_rdy=bool(deq_rdy), deq_msg=deq_msg, count=ln, enq_x=enq_x, deq_x=deq_x)
    if reset:
      s.q = []
      return out
    passthru = s.kind == 'bypass' and empty and enq_x and deq_x
    if deq_x and not empty: s.q.pop(0)
    if enq_x and not passthru: s.q.append(msg)
    return out
