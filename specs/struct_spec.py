"""Independent description of bitstruct shapes and of the specified packing (C06).

A shape is a JSON-able description, not a pymtl3 object:
   ['bits', w] | ['list', n, desc] | ['struct', name, [[field, desc], ...]]
spec_layout(desc) is the specification: first field most significant, list element 0 least
significant within its field, total width = sum of leaf widths.  It never looks at
__bitstruct_fields__ or at anything pymtl3 generated.
"""


def nbits(desc):
  k = desc[0]
  if k == 'bits': return desc[1]
  if k == 'list': return desc[1] * nbits(desc[2])
  return sum(nbits(d) for _, d in desc[2])


def spec_layout(desc, path=''):
  """[(accessor path relative to the value, width)] most significant leaf first"""
  k = desc[0]
  if k == 'bits': return [(path, desc[1])]
  if k == 'list':
    out = []
    for i in reversed(range(desc[1])): out += spec_layout(desc[2], f"{path}[{i}]")
    return out
  out = []
  for f, d in desc[2]: out += spec_layout(d, f"{path}.{f}")
  return out


def offsets(desc):
  """[(path, lsb offset, width)]"""
  lay = spec_layout(desc)
  pos = nbits(desc)
  out = []
  for p, w in lay:
    pos -= w
    out.append((p, pos, w))
  return out


_cache = {}


def build(desc, uniq=''):
  """the pymtl3 type for a description (struct names get `uniq` appended unless they end with '!')"""
  from pymtl3.datatypes import mk_bits, mk_bitstruct
  k = desc[0]
  if k == 'bits': return mk_bits(desc[1])
  if k == 'list': return [build(desc[2], uniq)] * desc[1]     # pymtl3's list-field convention
  key = (repr(desc), uniq)
  if key not in _cache:
    name = desc[1][:-1] if desc[1].endswith('!') else desc[1] + uniq
    _cache[key] = mk_bitstruct(name, {f: build(d, uniq) for f, d in desc[2]})
  return _cache[key]


def get(v, path):
  return eval('v' + path, {'v': v})


def pack(desc, leafvals):
  """specified packed value from {path: int}"""
  x = 0
  for p, off, w in offsets(desc): x |= (leafvals[p] % (1 << w)) << off
  return x


# ---------------------------------------------------------------------------
# concrete re-check used by replay scripts (plain ints, pristine pymtl3)
# ---------------------------------------------------------------------------
def concrete_check(desc, what, V, W, B, uniq='R'):
  """V, W: {path: int} leaf values of two instances; B: packed int.  Returns None or a message."""
  import copy
  from pymtl3.datatypes import Bits
  T = build(desc, uniq)
  N = nbits(desc)
  offs = offsets(desc)

  def inst(vals):
    x = T()
    for p, off, w in offs: get(x, p).__imatmul__(vals[p])
    return x

  def leaves(x): return {p: int(get(x, p)) for p, _, _ in offs}
  def ids(x): return {p: id(get(x, p)) for p, _, _ in offs}

  if what == 'layout':
    v = inst(V)
    if T.nbits != N: return f"nbits {T.nbits} != sum of leaf widths {N}"
    b = v.to_bits()
    if b.nbits != N or int(b) != pack(desc, V): return f"to_bits gives {b!r}, specified {pack(desc, V):#x} ({N} bits)"
  elif what == 'from_bits':
    v = T.from_bits(Bits(N, B))
    for p, off, w in offs:
      if int(get(v, p)) != (B >> off) % (1 << w) or get(v, p).nbits != w:
        return f"from_bits({B:#x}){p} = {get(v, p)!r}, specified bits [{off}:{off + w}] = {(B >> off) % (1 << w):#x}"
    if int(v.to_bits()) != B: return f"to_bits(from_bits({B:#x})) = {v.to_bits()!r}"
  elif what == 'roundtrip':
    v = inst(V)
    r = T.from_bits(v.to_bits())
    if leaves(r) != {p: V[p] for p in leaves(r)}: return f"from_bits(to_bits(v)) != v: {leaves(r)} vs {V}"
  elif what in ('eq', 'ne'):
    v, w = inst(V), inst(W)
    exp = pack(desc, V) == pack(desc, W)
    got = (v == w) if what == 'eq' else (not (v != w))
    if bool(got) != exp: return f"v {'==' if what == 'eq' else '!='} w gives {got} but packed values {'agree' if exp else 'differ'}"
  elif what in ('clone', 'deepcopy'):
    v = inst(V)
    c = v.clone() if what == 'clone' else copy.deepcopy(v)
    if leaves(c) != leaves(v): return f"{what}: leaves differ {leaves(c)} vs {leaves(v)}"
    shared = [p for p in ids(v) if ids(v)[p] == ids(c)[p]]
    if shared: return f"{what}: leaf objects shared with the original: {shared}"
    for p, off, w in offs: get(c, p).__imatmul__((~V[p]) % (1 << w))
    if leaves(v) != {p: V[p] for p in leaves(v)}: return f"{what}: mutating the copy changed the original"
  elif what in ('imatmul', 'imatmul_bits', 'imatmul_other'):
    a, b = inst(V), inst(W)
    if what == 'imatmul': a @= b
    elif what == 'imatmul_bits': a @= Bits(N, pack(desc, W))
    else:
      from pymtl3.datatypes import mk_bitstruct, mk_bits
      O = mk_bitstruct('Other' + uniq, {'whole': mk_bits(N)})
      a @= O(pack(desc, W))
    if leaves(a) != {p: W[p] for p in leaves(a)}: return f"{what}: after a @= b, a = {leaves(a)}, b was {W}"
    if what == 'imatmul':
      shared = [p for p in ids(a) if ids(a)[p] == ids(b)[p]]
      if shared: return f"imatmul: a aliases b at {shared}"
      for p, off, w in offs: get(b, p).__imatmul__((~W[p]) % (1 << w))
      if leaves(a) != {p: W[p] for p in leaves(a)}: return "imatmul: overwriting b afterwards changed a"
  elif what in ('ilshift', 'ilshift_bits'):
    a, b = inst(V), inst(W)
    if what == 'ilshift': a <<= b
    else: a <<= Bits(N, pack(desc, W))
    if leaves(a) != {p: V[p] for p in leaves(a)}: return f"ilshift: a changed before the flip: {leaves(a)}"
    if what == 'ilshift':
      for p, off, w in offs: get(b, p).__imatmul__((~W[p]) % (1 << w))
    a._flip()
    if leaves(a) != {p: W[p] for p in leaves(a)}: return f"ilshift: after the flip a = {leaves(a)}, b was {W} at assignment time"
  elif what == 'sequence':
    # multi-step use: results of earlier calls are modified in place; later calls must not see that
    comp = lambda x: [get(x, p).__imatmul__((~int(get(x, p))) % (1 << w)) for p, off, w in offs]
    b = Bits(N, B)
    v1 = T.from_bits(b); v2 = T.from_bits(b)
    if v1 is v2: return "from_bits returns the same object for two calls with equal bits"
    shared = [p for p in ids(v1) if ids(v1)[p] == ids(v2)[p]]
    if shared: return f"two from_bits results share leaf objects {shared}"
    comp(v1)
    if int(v2.to_bits()) != B: return "modifying one from_bits result changed another one"
    v3 = T.from_bits(b)
    if int(v3.to_bits()) != B: return f"to_bits(from_bits({B:#x})) = {int(v3.to_bits()):#x} after an earlier result had been modified in place"
    if int(b) != B: return "from_bits modified its argument"
    t = T(); t @= b; comp(t)
    u = T(); u @= b
    if int(u.to_bits()) != B: return f"u @= Bits({B:#x}) gives {int(u.to_bits()):#x} after an earlier target had been modified in place"
    t = T(); t <<= b; t._flip(); comp(t)
    u = T(); u <<= b; u._flip()
    if int(u.to_bits()) != B: return f"u <<= Bits({B:#x}); flip gives {int(u.to_bits()):#x} after an earlier target had been modified in place"
    v = inst(V)
    r1 = v.to_bits(); r1 @= (~int(r1)) % (1 << N)
    r2 = v.to_bits()
    if int(r2) != pack(desc, V): return "to_bits returns a shared object: modifying one result changed the next"
    if leaves(v) != {p: V[p] for p in leaves(v)}: return "modifying the result of to_bits changed the struct"
  elif what == 'hash':
    v = inst(V)
    def h(x):
      try: return ('hash', hash(x))
      except TypeError: return ('unhashable',)
    same = {'clone': v.clone(), 'deepcopy': copy.deepcopy(v), 'from_bits(to_bits)': T.from_bits(v.to_bits()), 'rebuilt': inst(V)}
    for k, x in same.items():
      if not (x == v): return f"{k} does not compare equal to the original"
      if h(x) != h(v): return f"{k} == original but hash differs ({h(x)[0]} vs {h(v)[0]})"
    # hashing follows the value through in-place modification (@=, <<= + flip, a leaf write)
    w = inst(W)
    v @= w
    if h(v) != h(w): return "after v @= w the hash of v is not the hash of w (stale hash)"
    u = inst(V); h(u); u <<= w; u._flip()
    if h(u) != h(w): return "after u <<= w and the flip the hash of u is not the hash of w (stale hash)"
    t = inst(V); h(t)
    for p, off, wd in offs: get(t, p).__imatmul__(W[p])
    if not (t == w) or h(t) != h(w): return "after writing every leaf in place the struct does not hash like an equal one"
  else:
    return f"unknown sub-check {what}"
  return None
