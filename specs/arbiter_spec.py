"""Round-robin arbiter specification (C19), independent of pymtl3: z3 form and plain-int form."""
try:
  import z3
except ImportError:
  z3 = None


def py_grant(n, reqs, ptr):
  """first requester at or after the pointer position (cyclic); ptr one-hot"""
  k = ptr.bit_length() - 1
  for d in range(n):
    i = (k + d) % n
    if (reqs >> i) & 1: return 1 << i
  return 0


def py_next_ptr(n, reqs, ptr, en, reset):
  if reset: return 1
  g = py_grant(n, reqs, ptr)
  if g and en: return ((g << 1) | (g >> (n - 1))) & ((1 << n) - 1)
  return ptr


def z3_onehot(n, p):
  return z3.Or(*[p == (1 << k) for k in range(n)])


def z3_grant(n, reqs, ptr):
  """n-bit term; defined by quantifying 'no requester cyclically before i from the pointer'"""
  bit = lambda x, i: z3.Extract(i, i, x) == 1
  res = z3.BitVecVal(0, n)
  for k in range(n):
    gk = []
    for i in range(n):
      before = [j for j in range(n) if (j - k) % n < (i - k) % n]
      gk.append(z3.And(bit(reqs, i), *[z3.Not(bit(reqs, j)) for j in before]))
    term = z3.Concat(*[z3.If(gk[i], z3.BitVecVal(1, 1), z3.BitVecVal(0, 1)) for i in reversed(range(n))]) if n > 1 else \
        z3.If(gk[0], z3.BitVecVal(1, 1), z3.BitVecVal(0, 1))
    res = z3.If(ptr == (1 << k), term, res)
  return res


def z3_next_ptr(n, reqs, ptr, en, reset):
  g = z3_grant(n, reqs, ptr)
  rot = z3.Concat(z3.Extract(n - 2, 0, g), z3.Extract(n - 1, n - 1, g)) if n > 1 else g      # rotate left by one (standard SMT-LIB operators only)
  return z3.If(reset, z3.BitVecVal(1, n), z3.If(z3.And(g != 0, en), rot, ptr))
