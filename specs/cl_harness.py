"""Harness around the cycle-level queues (C17).  No z3 here: the same class is used by the symbolic check
(offers/messages are proxies) and by the concrete replay (plain ints)."""
from pymtl3 import *


class QHarness( Component ):
  def construct( s, DutType, n, eo, do, msgs, order=None ):
    s.dut = DutType( n )
    s.k   = len( eo )
    s.t   = 0
    s.log = []
    s.cur = {}
    s.eo, s.do, s.msgs = eo, do, msgs

    @update_once
    def up_enq():
      if not s.reset and s.t < s.k:
        r = s.dut.enq.rdy()
        s.cur['enq_rdy'] = bool( r )
        if r and s.eo[ s.t ]:
          s.dut.enq( s.msgs[ s.t ] )
          s.cur['enq'] = True

    @update_once
    def up_deq():
      if not s.reset and s.t < s.k:
        r = s.dut.deq.rdy()
        s.cur['deq_rdy'] = bool( r )
        if r and s.do[ s.t ]:
          s.cur['deq_msg'] = s.dut.deq()

    @update_once
    def up_adv():
      if not s.reset and s.t < s.k:
        s.log.append( s.cur )
        s.cur = {}
        s.t += 1

    s.add_constraints( U( up_enq ) < U( up_adv ), U( up_deq ) < U( up_adv ) )
    # a queue that declares no order between enq and deq must behave the same whichever caller runs first
    if order == 'enq_first': s.add_constraints( U( up_enq ) < U( up_deq ) )
    if order == 'deq_first': s.add_constraints( U( up_deq ) < U( up_enq ) )

  def done( s ):
    return s.t >= s.k

  def line_trace( s ):
    return ""


def run_harness( DutType, n, eo, do, msgs, order=None ):
  th = QHarness( DutType, n, eo, do, msgs, order )
  th.elaborate()
  th.apply( DefaultPassGroup() )
  th.sim_reset()
  cyc = 0
  while not th.done() and cyc < 4 * len( eo ) + 10:
    th.sim_tick(); cyc += 1
  return th.log


class AdapterHarness( Component ):
  """a cycle-level producer that REUSES one message object drives an en/rdy RTL queue through the library's
  RecvCL2SendRTL adapter; a consumer block dequeues when offered.  Accepted and delivered messages are logged."""
  def construct( s, QType, n, eo, do, msgs, MsgType ):
    from pymtl3.stdlib.ifcs.send_recv_ifcs import RecvCL2SendRTL
    s.ad = RecvCL2SendRTL( MsgType )
    s.q  = QType( MsgType, n )
    s.ad.send //= s.q.enq
    s.k = len( eo ); s.t = 0
    s.eo, s.do, s.msgs = eo, do, msgs
    s.scratch = MsgType()          # the producer's only message object, overwritten every cycle
    s.accepted = []; s.delivered = []

    @update_once
    def up_prod():
      if not s.reset and s.t < s.k:
        s.scratch @= s.msgs[ s.t ]
        if s.eo[ s.t ] and s.ad.recv.rdy():
          s.ad.recv( s.scratch )
          s.accepted.append( s.t )

    @update
    def up_cons():
      s.q.deq.en @= s.q.deq.rdy & ~s.reset & ( s.do[ s.t ] if s.t < s.k else 0 )

    def log_it( v ): s.delivered.append( v + 0 )      # (a copy of the value)

    @update_ff
    def up_log():
      if ~s.reset & s.q.deq.en: log_it( s.q.deq.ret )

    @update_once
    def up_adv():
      if not s.reset: s.t += 1

    s.add_constraints( U( up_prod ) < U( up_adv ) )

  def line_trace( s ): return ""


def run_adapter_harness( QType, n, eo, do, msgs, MsgType ):
  th = AdapterHarness( QType, n, eo, do, msgs, MsgType )
  th.elaborate()
  th.apply( DefaultPassGroup() )
  th.sim_reset()
  for _ in range( len( eo ) + 2 * n + 4 ): th.sim_tick()
  return th.accepted, th.delivered


class RecvAdapterHarness( Component ):
  """an RTL producer (en/rdy send interface) feeds a cycle-level queue through the library's RecvRTL2SendCL adapter; a
  cycle-level consumer dequeues and KEEPS every object it was handed.  After the offers have run out it takes whenever it
  can (drain), so at the end every accepted message must have been delivered, in order, still reading what was accepted.
  (GetRTL2GiveCL, the dequeue-side counterpart, cannot be constructed on this tree: it reads s.get.msg, GetIfcRTL has ret.)"""
  def construct( s, QType, n, eo, do, msgs, MsgType ):
    from pymtl3.stdlib.ifcs.send_recv_ifcs import RecvRTL2SendCL
    s.ad = RecvRTL2SendCL( MsgType )
    s.q  = QType( n )
    s.ad.send //= s.q.enq
    s.k = len( eo ); s.t = 0
    s.eo, s.do, s.msgs = eo, do, msgs
    s.accepted = []; s.kept = []

    def log_acc(): s.accepted.append( s.t )

    @update_once
    def up_prod():
      offer = ( not s.reset ) and s.t < s.k and bool( s.eo[ s.t ] ) and bool( s.ad.recv.rdy )
      s.ad.recv.en  @= 1 if offer else 0
      s.ad.recv.msg @= s.msgs[ s.t ] if s.t < s.k else 0
      if offer: log_acc()

    @update_once
    def up_cons():
      if not s.reset and ( s.t >= s.k or s.do[ s.t ] ) and s.q.deq.rdy():
        s.kept.append( s.q.deq() )

    @update_once
    def up_adv():
      if not s.reset: s.t += 1

    s.add_constraints( U( up_cons ) < U( up_adv ), U( up_prod ) < U( up_adv ) )

  def line_trace( s ): return ""


def run_recv_adapter_harness( QType, n, eo, do, msgs, MsgType ):
  th = RecvAdapterHarness( QType, n, eo, do, msgs, MsgType )
  th.elaborate()
  th.apply( DefaultPassGroup() )
  th.sim_reset()
  for _ in range( len( eo ) + 2 * n + 6 ): th.sim_tick()
  return th.accepted, th.kept
