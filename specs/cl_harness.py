"""Harness around the cycle-level queues (C17).  No z3 here: the same class is used by the symbolic check
(offers/messages are proxies) and by the concrete replay (plain ints)."""
from pymtl3 import *


class QHarness( Component ):
  def construct( s, DutType, n, eo, do, msgs, order=None ):
    s.dut = DutType( n )
    s.k   = len( eo )
    s.t   = 0
    s.log = []
    s.cur = {}
    s.eo, s.do, s.msgs = eo, do, msgs

    @update_once
    def up_enq():
      if not s.reset and s.t < s.k:
        r = s.dut.enq.rdy()
        s.cur['enq_rdy'] = bool( r )
        if r and s.eo[ s.t ]:
          s.dut.enq( s.msgs[ s.t ] )
          s.cur['enq'] = True

    @update_once
    def up_deq():
      if not s.reset and s.t < s.k:
        r = s.dut.deq.rdy()
        s.cur['deq_rdy'] = bool( r )
        if r and s.do[ s.t ]:
          s.cur['deq_msg'] = s.dut.deq()

    @update_once
    def up_adv():
      if not s.reset and s.t < s.k:
        s.log.append( s.cur )
        s.cur = {}
        s.t += 1

    s.add_constraints( U( up_enq ) < U( up_adv ), U( up_deq ) < U( up_adv ) )
    # a queue that declares no order between enq and deq must behave the same whichever caller runs first
    if order == 'enq_first': s.add_constraints( U( up_enq ) < U( up_deq ) )
    if order == 'deq_first': s.add_constraints( U( up_deq ) < U( up_enq ) )

  def done( s ):
    return s.t >= s.k

  def line_trace( s ):
    return ""


def run_harness( DutType, n, eo, do, msgs, order=None ):
  th = QHarness( DutType, n, eo, do, msgs, order )
  th.elaborate()
  th.apply( DefaultPassGroup() )
  th.sim_reset()
  cyc = 0
  while not th.done() and cyc < 4 * len( eo ) + 10:
    th.sim_tick(); cyc += 1
  return th.log
