"""Independent TinyRV0 interpreter written from examples/ex03_proc/tinyrv0-isa.md (decoding from the ENCODED words:
opcode / funct3 / funct7 fields and the I/S/B immediates as drawn in the document).  Generic over an arithmetic
back end: Z3Ops gives z3 terms and explores both sides of a bne whose condition is symbolic; IntOps runs on plain
ints (used by replay scripts).  Nothing here imports the processors or the repo's encoding table."""
try:
  import z3
except ImportError:
  z3 = None

CSR_PROC2MNGR = 0x7C0
CSR_MNGR2PROC = 0xFC0
M32 = 0xffffffff


def _bits(w, hi, lo): return (w >> lo) & ((1 << (hi - lo + 1)) - 1)
def _sext(v, n): return v - (1 << n) if v & (1 << (n - 1)) else v


def decode(w):
  """-> (name, rd, rs1, rs2, imm/csr) from a 32-bit instruction word, or None"""
  op, f3, f7 = _bits(w, 6, 0), _bits(w, 14, 12), _bits(w, 31, 25)
  rd, rs1, rs2 = _bits(w, 11, 7), _bits(w, 19, 15), _bits(w, 24, 20)
  i_imm = _sext(_bits(w, 31, 20), 12)
  s_imm = _sext((_bits(w, 31, 25) << 5) | _bits(w, 11, 7), 12)
  b_imm = _sext((_bits(w, 31, 31) << 12) | (_bits(w, 7, 7) << 11) | (_bits(w, 30, 25) << 5) | (_bits(w, 11, 8) << 1), 13)
  if op == 0b0110011 and f7 == 0:
    nm = {0b000: 'add', 0b111: 'and', 0b001: 'sll', 0b101: 'srl'}.get(f3)
    if nm: return (nm, rd, rs1, rs2, 0)
  if op == 0b0010011 and f3 == 0: return ('addi', rd, rs1, 0, i_imm)
  if op == 0b0000011 and f3 == 0b010: return ('lw', rd, rs1, 0, i_imm)
  if op == 0b0100011 and f3 == 0b010: return ('sw', 0, rs1, rs2, s_imm)
  if op == 0b1100011 and f3 == 0b001: return ('bne', 0, rs1, rs2, b_imm)
  if op == 0b1110011 and f3 == 0b010: return ('csrr', rd, rs1, 0, _bits(w, 31, 20))
  if op == 0b1110011 and f3 == 0b001: return ('csrw', rd, rs1, 0, _bits(w, 31, 20))
  return None


class IntOps:
  def const(s, v): return v & M32
  def add(s, a, b): return (a + b) & M32
  def and_(s, a, b): return a & b
  def sll(s, a, b): return (a << (b & 31)) & M32
  def srl(s, a, b): return a >> (b & 31)
  def ne(s, a, b): return a != b
  def addr_values(s, conds, a): return [(a, [])]
  def feasible(s, conds): return True
  def is_concrete_bool(s, c): return True
  def not_(s, c): return not c


class Z3Ops:
  def const(s, v): return z3.BitVecVal(v & M32, 32)
  def add(s, a, b): return a + b
  def and_(s, a, b): return a & b
  def sll(s, a, b): return a << (b & 31)
  def srl(s, a, b): return z3.LShR(a, b & 31)
  def ne(s, a, b): return z3.simplify(a != b)
  def not_(s, c): return z3.Not(c)
  def is_concrete_bool(s, c): return z3.is_true(c) or z3.is_false(c)
  def feasible(s, conds):
    sv = z3.Solver(); sv.add(*conds); return sv.check() == z3.sat
  def addr_values(s, conds, a):
    """all feasible concrete values of address term a under conds (small windows only)"""
    a = z3.simplify(a)
    if z3.is_bv_value(a): return [(a.as_long(), [])]
    out = []; sv = z3.Solver(); sv.add(*conds)
    while sv.check() == z3.sat:
      v = sv.model().eval(a, model_completion=True).as_long()
      out.append((v, [a == v])); sv.add(a != v)
      if len(out) > 64: raise ValueError("address not confined to a small window")
    return out


def run(ops, text_addr, words, data, inputs, max_steps=400, conds=()):
  """execute from text_addr.  words: list of instruction words; data: {addr: word value (ops domain)}; inputs: list of
  mngr2proc values (ops domain).  Returns a list of alternatives [(conds, outputs, final data dict, steps, inputs consumed)]: one per
  feasible combination of branch outcomes / address values.  The program ends when the PC leaves the text."""
  out = []
  init = dict(pc=text_addr, regs=[ops.const(0)] * 32, mem=dict(data), inp=0, outs=[], conds=list(conds), steps=0)
  work = [init]
  while work:
    st = work.pop()
    while True:
      idx = (st['pc'] - text_addr) // 4
      if st['pc'] < text_addr or idx >= len(words) or st['steps'] >= max_steps:
        out.append((st['conds'], st['outs'], st['mem'], st['steps'], st['inp'])); break
      d = decode(words[idx])
      if d is None:
        out.append((st['conds'], st['outs'], st['mem'], st['steps'], st['inp'])); break
      st['steps'] += 1
      name, rd, rs1, rs2, imm = d
      R = st['regs']
      def wr(v):
        if rd != 0: R[rd] = v
      nxt = st['pc'] + 4
      if name == 'add': wr(ops.add(R[rs1], R[rs2]))
      elif name == 'and': wr(ops.and_(R[rs1], R[rs2]))
      elif name == 'sll': wr(ops.sll(R[rs1], R[rs2]))
      elif name == 'srl': wr(ops.srl(R[rs1], R[rs2]))
      elif name == 'addi': wr(ops.add(R[rs1], ops.const(imm)))
      elif name == 'csrr':
        if imm != CSR_MNGR2PROC or st['inp'] >= len(inputs):
          out.append((st['conds'], st['outs'], st['mem'], st['steps'], st['inp'])); break
        wr(inputs[st['inp']]); st['inp'] += 1
      elif name == 'csrw':
        if imm == CSR_PROC2MNGR: st['outs'] = st['outs'] + [R[rs1]]
      elif name in ('lw', 'sw'):
        a = ops.add(R[rs1], ops.const(imm))
        alts = ops.addr_values(st['conds'], a)
        if len(alts) > 1:
          for v, c in alts[1:]:
            s2 = dict(st, regs=list(R), mem=dict(st['mem']), conds=st['conds'] + c, steps=st['steps'] - 1)
            work.append(s2)        # re-executes this instruction with the address pinned
          st['conds'] = st['conds'] + alts[0][1]
        v = alts[0][0]
        if name == 'lw': wr(st['mem'].get(v, ops.const(0)))
        else: st['mem'] = dict(st['mem']); st['mem'][v] = R[rs2]
      elif name == 'bne':
        c = ops.ne(R[rs1], R[rs2])
        if ops.is_concrete_bool(c):
          taken = bool(c) if not hasattr(c, 'sort') else z3.is_true(c)
        else:
          t_ok = ops.feasible(st['conds'] + [c]); f_ok = ops.feasible(st['conds'] + [ops.not_(c)])
          if t_ok and f_ok:
            s2 = dict(st, regs=list(R), mem=dict(st['mem']), outs=list(st['outs']), conds=st['conds'] + [ops.not_(c)], pc=nxt)
            work.append(s2)
            st['conds'] = st['conds'] + [c]; taken = True
          else:
            taken = t_ok
        if taken: nxt = st['pc'] + imm
      st['pc'] = nxt
  return out
