"""name -> constructor for the committed design corpora (usable from replays: imports pymtl3 only)"""


def make(name):
  from corpus import ff_designs as FD
  if name in FD.DESIGNS: return FD.DESIGNS[name]
  if name.startswith('stdlib:'):
    from corpus import stdlib_designs as SD
    return SD.DESIGNS[name]
  raise KeyError(name)


FF_NAMES = ['FuncFF', 'NegIdx', 'StructChain', 'StructListReg', 'NegLiteral', 'TwoRegsPlusChild', 'OneRegPlusTwoChildren', 'NoDataInputs', 'Swap', 'ShiftChain3', 'CondMulti', 'StructReg', 'ListRot4', 'ParentWritesChild', 'Forwarded', 'ManyBranchy9',
            'RegFile', 'RegEnRst', 'stdlib:NormalQueueRTL2', 'stdlib:BypassQueueRTL4', 'stdlib:StreamPipeQueue2', 'stdlib:RoundRobinArbiterEn3']
